#!/bin/bash
# Offline setup: nothing to build (pure Python explorers, run by /venv/bin/python which
# imports /repo's working tree through its editable install).  Only sanity checks.
set -e
cd "$(dirname "$0")"
mkdir -p evidence replays
chmod +x check
/venv/bin/python - <<'PY'
import netqasm, numpy, sys, os
assert os.path.realpath(os.path.dirname(netqasm.__file__)).startswith("/repo"), netqasm.__file__
print("setup ok: netqasm from", netqasm.__file__, "numpy", numpy.__version__)
PY
