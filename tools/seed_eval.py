#!/usr/bin/env python3
"""Confirms a seeded property-breaking change and runs the checks against it.

  tools/seed_eval.py <worktree> <diff> <demo.py> <seed-id> <property> [other props to run...] [--tier quick]

1. in <worktree> (clean): demo passes; apply diff; 171 tests pass; demo fails; revert.
2. apply diff to /repo, run ./check <prop> (and the others), revert /repo (always).
3. writes /verif/seeded/<seed-id>/{patch.diff, demo.py, meta.json}.
"""
import json
import os
import shutil
import subprocess
import sys

ROOT = os.path.dirname(os.path.dirname(os.path.abspath(__file__)))


def sh(cmd, cwd=None, env=None, timeout=3600):
    e = dict(os.environ)
    if env:
        e.update(env)
    p = subprocess.run(cmd, shell=True, cwd=cwd, env=e, capture_output=True, text=True, timeout=timeout)
    return p.returncode, (p.stdout + p.stderr)


def main():
    args = [a for a in sys.argv[1:] if not a.startswith("--")]
    tier = "quick"
    if "--tier" in sys.argv:
        tier = sys.argv[sys.argv.index("--tier") + 1]
        args = [a for a in args if a != tier]
    wt, diff, demo, seed_id, prop, *others = args
    diff = os.path.abspath(diff)
    demo = os.path.abspath(demo)
    env = {"PYTHONPATH": wt}
    meta = {"seed": seed_id, "property": prop, "ran": []}
    sh("git checkout -- .", cwd=wt)
    rc0, out0 = sh(f"/venv/bin/python {demo}", cwd=wt, env=env, timeout=600)
    meta["demo_without_change_exit"] = rc0
    rc, out = sh(f"git apply {diff}", cwd=wt)
    if rc != 0:
        print("diff does not apply in worktree:", out)
        return 2
    try:
        rct, outt = sh("/venv/bin/python -m pytest -q -p no:cacheprovider tests --ignore=tests/test_external 2>&1 | tail -3", cwd=wt, env=env)
        meta["tests_with_change"] = outt.strip().splitlines()[-1] if outt.strip() else ""
        rc1, out1 = sh(f"/venv/bin/python {demo}", cwd=wt, env=env, timeout=600)
        meta["demo_with_change_exit"] = rc1
        meta["demo_with_change_tail"] = out1.strip().splitlines()[-3:]
    finally:
        sh("git checkout -- .", cwd=wt)
    confirmed = rc0 == 0 and rc1 != 0 and "171 passed" in meta["tests_with_change"]
    meta["confirmed"] = confirmed
    print(json.dumps({k: meta[k] for k in ("demo_without_change_exit", "tests_with_change", "demo_with_change_exit", "confirmed")}))
    # run the checks against the changed tree: the worktree with the change applied is put first on the import path
    # (PYTHONPATH overrides the editable install of /repo), so /repo itself is never touched and concurrently running
    # checks are not disturbed
    rc, out = sh(f"git apply {diff}", cwd=wt)
    if rc != 0:
        print("diff does not apply in worktree:", out)
        return 2
    results = {}
    try:
        rc, out = sh("/venv/bin/python -c 'import netqasm; print(netqasm.__file__)'", cwd=ROOT, env=env)
        assert out.strip().startswith(wt), out
        for p in [prop] + others:
            rc, out = sh(f"./check {p} --tier {tier}", cwd=ROOT, env=env, timeout=7200)
            lines = [l for l in out.splitlines() if l.startswith("VIOLATION") or l.startswith("  fingerprint") or l.startswith("BROKEN")]
            results[p] = {"exit": rc, "lines": lines[:12]}
            print(p, "exit", rc, *lines[:6], sep="\n  ")
    finally:
        sh("git checkout -- .", cwd=wt)
    meta["checks_with_change"] = results
    meta["detected_by"] = [p for p, r in results.items() if r["exit"] == 1]
    d = os.path.join(ROOT, "seeded", seed_id)
    os.makedirs(d, exist_ok=True)
    shutil.copy(diff, os.path.join(d, "patch.diff"))
    shutil.copy(demo, os.path.join(d, "demo.py"))
    notes = os.path.join(os.path.dirname(diff), "notes.md")
    if os.path.exists(notes):
        shutil.copy(notes, os.path.join(d, "notes.md"))
    meta["what_i_ran"] = (f"worktree {wt}: demo (clean) -> exit {rc0}; git apply; pytest -> {meta['tests_with_change']}; demo -> exit {rc1}; "
                          f"then, with the change applied in the worktree, PYTHONPATH={wt} ./check {' '.join([prop] + others)} --tier {tier} (equivalent to git -C /repo apply patch.diff; ./check ...; git -C /repo checkout -- .)")
    with open(os.path.join(d, "meta.json"), "w") as fh:
        json.dump(meta, fh, indent=1)
    # restore evidence of the unchanged tree is the caller's job (re-run the checks)
    return 0


if __name__ == "__main__":
    sys.exit(main())
