#!/usr/bin/env python3
"""Regenerates /verif/MANIFEST.json from the table below (run by hand after adding a check)."""
import json
import os

ROOT = os.path.dirname(os.path.dirname(os.path.abspath(__file__)))

CHECKS = {
    "C01": dict(cat="exploration", tech="bounded-exhaustive enumeration of encode/decode round trips on the real codec",
                text="Every instruction class of every flavour is round-tripped through the real encoder and decoder for every "
                     "value of every operand field against two backgrounds, all field pairs over reduced domains, full products "
                     "of small shapes, all 65536 app ids and version byte pairs and all short sequences; the live opcode and "
                     "mnemonic tables are checked for injectivity. Exhaustive inside the stated lattice, so a single- or "
                     "two-field codec fault cannot hide. In addition every sequence of up to 3 (thorough 5) operations on one real "
                     "Subroutine object (encode, len, str, cstructs, set app id, replace or edit the instruction list in place, "
                     "instantiate) is run and the bytes produced afterwards must decode to the state the object then has.",
                note="32-bit integers on the boundary lattice only; in-range operands only; CPython ctypes layout on x86-64",
                ref="3/C01"),
    "C02": dict(cat="exploration", tech="bounded-exhaustive enumeration against an independent reference encoder and a frozen opcode table",
                text="bytes(Subroutine) is compared byte for byte with an independent encoder driven by a frozen published "
                     "opcode/operand table for walking-one, all-distinct and complete per-field valuations, full products of small shapes and all headers; "
                     "the reference bytes are decoded by the real decoder; flavour objects constructed in every order must still "
                     "decode their own published bytes; an instruction whose operands are changed in place after a first encoding "
                     "must encode its current operands; every sequence of up to 3 (thorough 4) operations on one Subroutine object "
                     "(encode, len, str, set app id, replace/edit the instruction list, instantiate) must leave an object whose bytes are "
                     "the published layout of its current state. A consistent renumbering or field swap in encoder and "
                     "decoder, invisible to any round-trip test, is caught.",
                note="the frozen table mc/wiretable.py is trusted as the published table (mov = 42 after the C01 repair)",
                ref="3/C02"),
    "C03": dict(cat="exploration", tech="bounded-exhaustive program enumeration; real assembler output executed on an independent reference VM against source-level interpretation",
                text="All source programs up to 3 (thorough 4) instructions over a menu with literals in every register position, "
                     "array index and slice bound, every placement of up to two labels (consecutive, after the end, forward and "
                     "backward), both entry forms (text and ProtoSubroutine), all ordered macro definitions over prefix-related "
                     "keys, argument brackets, the 11..16-register pressure family, ten label-name pairs that resemble other token classes and every {register, literal} combination of the operand "
                     "positions of 20 instruction templates are assembled by the real assembler; the "
                     "result is encoded, decoded and executed on the reference VM from a state where every register holds a distinct sentinel and "
                     "compared with the source-level interpretation (named registers, arrays, shared memory, fault class, "
                     "source-pc trace) and re-derived structurally (scratch registers fresh and distinct, targets = first emitted "
                     "instruction of the labelled source instruction).",
                note="reference VM and macro expander in /verif are trusted; programs beyond the size bound are not covered",
                ref="3/C03"),
    "C04": dict(cat="model_checking", tech="explicit-state BFS over instruction histories on the real executor with canonical state hashing, plus exhaustive short programs, against a reference VM",
                text="Breadth-first search over histories of single-instruction subroutines (45-instruction menu, depth 4 quick / 6 "
                     "thorough) against one application state on the real executor, hashing registers, arrays, shared memory and "
                     "allocation; every transition is compared with the independent reference VM (state, fault class, fault line, "
                     "state unchanged on fault, blocked waits). All programs up to 3 (thorough 4) instructions with every branch "
                     "kind and every jump target are run under a step horizon and compared on the executed-pc trace and final state. "
                     "Four programs (moves/returns, arithmetic, array length/index/slice bounds, branches) are run for every ordered pair "
                     "of the 64 registers, so every register of every bank is exercised in every operand role; the state after the set-up "
                     "subroutine is compared with a literal (registers nothing wrote are undefined), which anchors the reference state "
                     "that is otherwise read from the executor. 64 programs declare an array address again with another length (shorter, equal, "
                     "longer; filled or not; in one or two subroutines) with ret_arr before and after. A lattice of 12 register values "
                     "(byte boundary, negative, 32-bit ends) produced in three ways is compared by every branch kind, with the "
                     "subroutine in wire form.",
                note="reference semantics of appendix B; 'unspecified' cases (negative indices, undefined operands) excluded and counted; "
                     "quantum hooks and wait polling are harness overrides of no-op/abstract methods",
                ref="3/C04"),
    "C05": dict(cat="exploration", tech="bounded-exhaustive enumeration of host-program ASTs x flush placements x measurement-outcome scripts; real SDK-to-controller pipeline vs direct evaluation",
                text="Host programs are ASTs over the SDK constructs (if_eq/ne/lt/ge/ez/nz as context and callback, loop as context and "
                     "loop_body incl. start/step, foreach, enumerate, loop_until with at-most exit, add on futures/registers with and "
                     "without modulus, measurement into new futures / array slots / registers, arrays with initial values). All "
                     "single statements to nesting depth 2, all pairs from a reduced pool and all triples from a small pool, times "
                     "every subset of flush gaps, every feasible measurement-outcome script and three initial arrays, are built "
                     "with the real SDK, compiled, serialised, deserialised and executed on the real controller, and compared "
                     "with direct evaluation of the AST on the ordered gate/measurement trace, controller arrays and registers "
                     "after each flush, and the host-side value of every live Future/RegFuture/Array handle after each flush. The "
                     "reduced x small pair pool also runs on the NV hardware config with and without the NV transpiler (measurement "
                     "outcomes, memory, handles and the final state of the persistent qubit). Two further families: about 900 programs around "
                     "less-used entry points (builder.new_register incl. single-operand conditions on it, array entries indexed by a "
                     "Future, additions of 0 with a modulus, loops counting down, try_until_success with work queued around it, handles "
                     "of array slices for 12 slice shapes, loop_until exit bounds -2..2, measurement of X/Y/Z eigenstates in each named "
                     "basis), and every sequence of 3 (thorough 4) array-lifecycle operations (new array with / without "
                     "values, flush, non-blocking flush, add to an entry, measure into an entry) on connections with and without ret_arr, judged against a model "
                     "of the controller arrays and the host handles after every flush.",
                note="programs beyond the size/nesting bound and SDK usages outside the grammar are not covered; quantum hooks of the "
                     "controller are harness code (exact state vector); one open known finding (ret_reg of a never-written register)",
                ref="3/C05"),
    "C06": dict(cat="exploration", tech="bounded-exhaustive enumeration of compile/instantiate/commit vs flush histories x template values x outcome scripts on the real SDK and controller, differential oracle",
                text="Every history of 1..2 (thorough 3) segments over seven segment bodies with template operands in rotation numerators "
                     "(one and two templates, denominators 0/1/4, measurement into a new future, a register, an existing array slot, "
                     "rotation of a persistent qubit), each closed by flush(), by compile() -> instantiate() -> commit_subroutine(), or compiled now and committed "
                     "later in order (at least one pre-compiled), followed by the closing flush, for template values {0,1,8,16,31,255}, with and "
                     "without the NV transpiler and for every measurement-outcome script, is executed on the real pipeline and must "
                     "give exactly the observations (gate trace with angles, controller arrays, host handle values, builder "
                     "bookkeeping) of the same history written with literals and plain flushes, after every segment and after close.",
                note="NV transpiler in simulation mode; usage as in examples/sdk_scripts/rsp.py",
                ref="3/C06"),
    "C07": dict(cat="exploration", tech="exhaustive enumeration of gates x placements x all 65536 angle operands through the real transpiler; exact matrix comparison with independent operator semantics",
                text="Every accepted vanilla gate is run through the real NVSubroutineTranspiler for every qubit placement "
                     "(electron id 0, carbons 1..3; all 12 ordered pairs for CNOT/CPHASE; MOV in both directions), every rotation "
                     "numerator 0..255 and denominator 0..255 in simulation mode and 0..4 in hardware mode (others must be rejected); "
                     "the emitted NV instructions are interpreted with independent textbook operator definitions and compared as "
                     "exact matrices up to one global phase with the gate they replace (3-qubit unitary equal to gate x identity for "
                     "carbon-carbon, so the borrowed electron is restored for every electron state; MOV as an isometry onto a fresh "
                     "target). Every to_matrix/to_matrix_target_only and the util.quantum_gates tables are compared with the same "
                     "definitions for all (n,d). Complete for the stated space.",
                note="NV instruction semantics (rot, crot) as in the NetQASM paper; float tolerance 1e-9",
                ref="3/C07"),
    "C08": dict(cat="exploration", tech="bounded-exhaustive enumeration of vanilla program skeletons x gate groups x placements x register source x debug; real transpiler output (serialised form) executed on the reference VM with NV semantics against the original with vanilla semantics",
                text="Straight-line, if (taken / skipped), counted loop, loop exiting to a label just past the end, branch to end, if-in-loop, "
                     "measure-then-if and mov-with-alloc/free skeletons, filled with every gate group [set Q0 a; (set Q1 b;) g] for "
                     "g in {h,x,t,rot_y,cnot,cphase} and every placement over ids {0,1,2}, with the qubit register written by set or by "
                     "load from an array, debug False and True, loops and jumps whose target is line 0, 2..24 carbon-carbon gates written out in one subroutine, plus two two-qubit gates on all 36 pairs of register pairs over Q0..Q2 "
                     "(straight, loop, if-in-loop, and with a third register written between the gates and used after them), are transpiled by the real NVSubroutineTranspiler, serialised and "
                     "deserialised with the NV flavour, and run on the independent reference VM from a basis, a product and an "
                     "entangled initial state under every measurement script: named registers, arrays, allocation and the full state "
                     "vector (up to global phase) must equal those of the original under vanilla semantics. Statically, every branch "
                     "target must be the first instruction of the expansion of its original target (or the appended no-op), non-gate "
                     "instructions keep their order and operands, and debug=True must give the same wire program as debug=False. A corpus of "
                     "vanilla subroutines the real builder emits for NV hardware (C05's statement pool: contexts, loops, conditionals, "
                     "relocations with mov) is judged the same way.",
                note="programs in which every gate is preceded by the set/load of its registers (what the builder emits); open known findings: "
                     "two-qubit gate on a register written by load, carbon-carbon gate through an unallocated electron",
                ref="3/C08"),
    "C09": dict(cat="model_checking", tech="explicit-state BFS over SDK qubit-operation histories, every history replayed on the real SDK-to-controller pipeline with an allocation-checking executor",
                text="Breadth-first search over histories of qubit creation, gates, cnot, in-place and destructive measurement, free, "
                     "create/recv_keep(1|2), sequential keep (1|2 pairs) with a measuring post routine, sequential and non-sequential EPR contexts "
                     "and flush, enabled only while the live qubits stay within the budget (budget-1 on single-communication-qubit "
                     "hardware), for budgets 1..5 x {generic, NV config, NV config + NV transpiler}, hashing handle ids, a digest of "
                     "the pending commands, the builder's qubit list and the controller's unit module. Every flush must execute "
                     "without allocation faults (gate on unallocated qubit, double allocation, free of unallocated, id outside the "
                     "unit module) and afterwards conn.active_qubits, the handles the program still holds and the controller's "
                     "allocated virtual ids must be the same set. In addition every configuration with budgets 2-4 is explored with a flush "
                     "after every operation until the state graph closes (2-65 states), i.e. for flushed histories of any length; "
                     "sequential keep without a post routine (handle used at once) is part of the alphabet; two connections alive in one "
                     "process must each agree with their own controller, also with their EPR contexts nested in each other; in every "
                     "explored state with nothing pending the connection is closed: no handle stays active, the controller holds nothing. "
                     "Qubit.reset() is part of the alphabet (the qubit stays allocated under its id).",
                note="depth 3-5 quick / 5-8 thorough per budget (state caps reported); EPR responses delivered on demand, all Phi+; open "
                     "known findings for NV-only SDK defects (non-sequential NV context deadlock, hard-coded NV memory ids, carbon-carbon "
                     "gate through an unallocated electron)",
                ref="3/C09"),
    "C10": dict(cat="exploration", tech="exhaustive enumeration of pair counts x all Bell-state tuples x API variants x hardware x live-qubit shifts through the real SDK-to-controller pipeline with real Bell pairs in an exact state vector; exact joint distributions for measure-directly",
                text="For n = 1..3 (thorough 4) pairs, all 4^n Bell-state tuples, the variants recv_keep, recv_keep_with_info, sequential "
                     "recv_keep with a measuring post routine (Z and X), recv_keep with a non-sequential post routine, recv_rsp, recv_rsp_with_info, create_keep(_with_info), generic / "
                     "NV / NV+transpiler hardware, 0..2 other live qubits, expect_phi_plus on and off and responses in native and "
                     "qlink-interface 1.0 format, the link model puts a real Bell pair (local half on a fresh physical qubit) into the "
                     "controller's state vector; after the subroutine the reduced state of every (local_i, remote_i) must be exactly "
                     "Phi+ (or the delivered state when nothing may be corrected) and unrelated qubits untouched. For measure-directly "
                     "results the exact joint distribution of (post-processed receiver outcome, creator outcome) is computed for the six "
                     "named bases x four Bell states and must equal the Phi+ distribution; recv_measure and create_measure run through the pipeline for every "
                     "Bell-state tuple and raw outcome with native and qlink-interface 1.0 responses (creator outcomes must never be post-processed); mismatching/unnamed bases must raise; "
                     "recv_measure goes through the pipeline for all tuples and raw outcomes.",
                note="Bell states by name per response format; a receiver cannot name a basis through the API (six bases on EprMeasureResult "
                     "objects); programs the SDK cannot compile on NV (open C09 finding) are counted, not judged; open known findings: "
                     "generic recv corrections hit virtual qubit 0 (repair would change a pinned test), NV recv_rsp deadlock",
                ref="3/C10"),
    "C11": dict(cat="exploration", tech="bounded-exhaustive enumeration of EPRSocket API calls and scripted link-layer responses through the real SDK-to-executor pipeline with a recording network stack",
                text="For every public EPRSocket create/recv entry point and the parameter lattice (number 1..3; all TimeUnit, EprMeasBasis "
                     "and RandomBasis members; each rotation component 0..31 and the {0,1,31}^3 cubes; sockets {0,1,3}; two remote nodes; "
                     "min-fidelity loop variants; generic and NV hardware) the LinkLayerCreate received by the stack, or the receive "
                     "registration made by the executor, equals an independently written argument-to-field map with documented defaults; "
                     "enum-typed fields are enum members and request_to_qlink_1_0 accepts K and M requests with matching fields. With "
                     "responses carrying all-distinct field values, every Qubit.entanglement_info field, the qubit-to-pair association, "
                     "every EprKeepResult field and every EprMeasureResult field reads the same-named field of its own pair's response, "
                     "with the responses delivered in netqasm's own type and as qlink-interface 1.0 objects. Measure-directly and "
                     "state-preparation requests are also made for more pairs than the application has qubits; in the harness network node "
                     "names differ from role names and role names also name other nodes. "
                     "The socket registration recorded by the stack must be (local id, remote node, remote id) as opened, with local id != remote id. "
                     "Every seventh request case is repeated with an EPRSocket object that served a connection of another network before.",
                note="delivery schedule fixed to 'next pair when a wait blocks' (interleavings are C12); measurement_outcome compared only "
                     "where no Bell post-processing applies (C10); the R-to-qlink-1.0 conversion refusal is counted, not judged",
                ref="3/C11"),
    "C12": dict(cat="model_checking", tech="explicit-state exploration of all interleavings of executor instruction steps, link-layer response deliveries and retries on the real executor, canonical state hashing, per-state invariants and FIFO reference",
                text="For ten hand-written scenarios of the shape the SDK emits and seven subroutines emitted by the real SDK (recv_keep, "
                     "create_keep+recv_keep, two sockets, recv/create_measure, sequential keep with post routine, NV recv_keep) (1..3 outstanding requests of 1..3 pairs; same and different sockets and "
                     "remote nodes; create and receive roles mixed; keep and measure types; a target virtual qubit still allocated when "
                     "its response arrives; wait_all / wait_any / wait_single) the real executor's generator is advanced one "
                     "instruction at a time and every interleaving with response deliveries (per stream in order, receiver-side also "
                     "before the matching instruction ran) and retries of deferred responses is explored until the state graph "
                     "closes. Every state: no response consumed twice, each defined result slice holds exactly the response the FIFO "
                     "reference assigns to (oldest request of the stream, pair k) and maps that request's k-th virtual qubit, queue "
                     "bookkeeping (pairs_left vs filled slices), a keep-response never changes an allocated virtual qubit, waits "
                     "resume only when (and as soon as) their condition holds, physical qubits injective and marked used; stuck states "
                     "are deadlocks; at quiescence every response is stored once, queues and pending list empty, used == mapped.",
                note="environment contract: per-stream in-order delivery; keep-responses name the lowest physical qubit not marked used at "
                     "delivery time; scenarios are hand-written subroutines, not all programs",
                ref="3/C12"),
    "C13": dict(cat="model_checking", tech="explicit-state BFS with exact canonical hashing over controller histories replayed on the real QNodeController/Executor, per-state invariants plus prefix-replica fault check",
                text="Explicit-state BFS over controller histories on the real QNodeController/Executor/SharedMemoryManager, driven through the "
                     "message-level lifecycle (init/stop/subroutine bytes) and the executor's response API: init, stop, qalloc, qfree, gate, "
                     "classical writes with app-tagged values, recv_epr (subroutine suspended in its wait), keep-response (handled or "
                     "deferred, or arriving before its recv_epr has run) and retry, for up to 3 applications on 1-2 controllers with unit modules 1..4. After every transition: "
                     "(app,virtual)->physical injective, used set == mapped set, no queued response's physical qubit handed out, every other application bit-identical (registers, arrays, "
                     "shared memory via executor and manager, unit module), faulting subroutines equal to their fault-free prefix, stop "
                     "leaves nothing keyed by the app and the id can be registered again clean. Quick: 7 configurations, ~1e5 transitions, "
                     "one closed graph; thorough: 10 configurations, ~1.5e6 transitions, closed graphs for several size configurations "
                     "(any history length over those alphabets), the others depth-bounded.",
                note="a small model predicts fault/suspend and enabling only; keep-response contract: lowest physical id neither marked used "
                     "nor carried by a queued response; ids of queued keep-responses are tolerated in the used set; closed graphs use events "
                     "that normalise their own scratch registers",
                ref="3/C13"),
    "C14": dict(cat="model_checking", tech="explicit-state BFS over completed-SDK-operation histories on the builder's register economy until the state graph closes; nesting families executed on the real controller",
                text="Breadth-first search over histories of 44 kinds of completed SDK operations (loops also with an explicit loop register, start and step) plus flush (forced at the latest after 15 "
                     "operations) on one connection, hashing the builder's register economy; every transition compiles and serialises "
                     "the real subroutine. Every completed operation must return the pool to the state it found (no active register, "
                     "no measurement register beyond live RegFutures, no open context), also after a probing flush that follows every "
                     "transition (the state key does not hold pending commands); the state graph closes (136 states), which "
                     "gives the unbounded statement: sequences of any length keep compiling. Loops nested 1..14 deep with each "
                     "operation kind innermost are executed on the real controller and compared with direct evaluation, so a "
                     "temporary overwriting a live enclosing loop counter is seen as a wrong sum. With a second connection alive in the "
                     "process (inside a loop, holding registers) every operation must leave the same economy as alone.",
                note="16 register measurements without a flush legitimately exhaust the M bank; fresh-name counters are not part of the "
                     "state; nesting beyond depth 12 may legitimately raise the documented out-of-registers error",
                ref="3/C14"),
    "C15": dict(cat="exploration", tech="bounded-exhaustive enumeration of message serialise/deserialise round trips",
                text="Every host-to-controller and controller-to-host message type is serialised and deserialised by the real code "
                     "for every value of each field's boundary lattice (complete for 8-bit fields) against two backgrounds, every "
                     "Signal/ErrorCode member, all returned arrays of length 0..5 (thorough 0..6) over {None,0,1,-1,INT_MAX,INT_MIN} "
                     "and every single-None / single-defined pattern of lengths 5..64; fields are compared with an independently "
                     "written field list, None must stay None. In addition every sequence of up to 3 (thorough 4) operations on one "
                     "real message object per type (serialise, len, str, set a field, edit or replace the value list) is run and the "
                     "bytes produced afterwards must deserialise to the field values the object then has.",
                note="32-bit fields on the boundary lattice; values inside declared widths",
                ref="3/C15"),
    "C16": dict(cat="exploration", tech="bounded-exhaustive enumeration of out-of-range operands over three entry routes",
                text="For every instruction class of every flavour, every operand field is given every value of a contiguous band on both sides of its range "
                     "(40-300 values each) and all +-2^k, +-2^k+-1 up to 2^71 against two backgrounds, through direct construction (fresh objects, and objects that were encoded before and then changed in place), through the text assembler and "
                     "through SDK calls (rotation numerators/denominators, measurement basis rotations, array initial values, "
                     "literals, loop bounds, app id through constructor / setter / instantiate()); the oracle is 'encoding raises, or the bytes decode to exactly the requested program', "
                     "so a future widening of a field is not an alarm but a silent truncation is.",
                note="register banks are an Enum and cannot be out of range; SDK route runs on DebugConnection",
                ref="3/C16"),
    "C17": dict(cat="exploration", tech="bounded-exhaustive enumeration of print/parse round trips on the real printer and text parser",
                text="Every instruction class of every flavour is printed with str() and parsed back with that flavour for every "
                     "value of every operand field against two backgrounds and all field pairs over reduced domains (negative "
                     "integers, array entries and slices with every register as index included); all sequences up to length 3 "
                     "over one representative per operand shape go text -> binary -> text -> parse and must be stable; per class, "
                     "print / change operands in place / print again and parse / change the result in place / parse again must reflect the current operands and the text.",
                note="operands in range; 32-bit integers on the boundary lattice",
                ref="3/C17"),
    "C18": dict(cat="model_checking", tech="stateless schedule exploration of the implementation: CHESS-style iterative context bounding on real threads (sys.settrace baton scheduler, scheduler-aware lock and sleep, fair scheduling for 3 threads, audited preemption-placement reduction)",
                text="For 16 scenarios (plain, structured and silent send/receive, blocking and non-blocking, with and without a size hint, message values incl. the empty string) of 2-3 real ThreadSocket / StorageThreadSocket / broadcast-channel endpoints (<= 4 sends or receives each; "
                     "plain, structured, callback, non-blocking, two socket ids, close while draining, either side first) every thread "
                     "schedule with <= 2 (quick) / <= 3 (thorough) preemptions at statement granularity in socket_hub.py, "
                     "thread_socket/socket.py and broadcast_channel.py is executed on the real code. Per direction and socket id the "
                     "received sequence equals the sent one; recv(block=False) on an empty channel raises the documented error without "
                     "sleeping and never returns a delivered message; no schedule deadlocks, livelocks or exceeds the step horizon; all "
                     "constructors return. Replay determinism is asserted on the first executions of every scenario and on every "
                     "counterexample.",
                note="preemption bound 2/3; three-thread scenarios deviation-bounded under fair scheduling; statement-level interleaving under "
                     "the GIL; preemptions are placed only before lines touching shared hub state and that reduction is audited every run "
                     "against the unreduced search at a lower bound; timeouts not modelled",
                ref="3/C18"),
    "C19": dict(cat="exploration", tech="exhaustive enumeration over a stated finite lattice of angles x tolerances, exact rational arithmetic oracle",
                text="Not all doubles: every k*pi/2^m (m<=10, |k|<=2^(m+2)), each +-1 ulp and +-tol, 0 and 2*pi +- 1e-17..1e-3, and a "
                     "uniform grid of 2^12 (thorough 2^16) points on [-4pi,4pi], times the nine tolerances 1e-1..1e-9, are decomposed by "
                     "the real function; every step must have 0<=n,d<=255 and the exact rational sum times pi must be within tol of "
                     "the angle modulo 2*pi. A sublattice goes through q.rot_X/Y/Z(angle=) and the full SDK-to-controller pipeline: "
                     "one rotation instruction per step, state-vector effect equal to the rotation. Seeded supplementary samples are "
                     "reported separately and are not part of the exhaustive claim.",
                note="finite lattice of doubles; float slack 1e-12",
                ref="3/C19"),
    "C20": dict(cat="exploration", tech="exhaustive enumeration of toolbox calls x inputs x every measurement outcome branch through the full SDK-to-controller pipeline on an exact state vector; operators reconstructed column by column",
                text="toffoli_gate is reconstructed as a full 8x8 operator from the 8 basis inputs (prepared exactly in the harness) for all 6 "
                     "assignments of (control1, control2, target) to virtual ids and compared with Toffoli up to one global phase, "
                     "t_inverse as a 2x2 operator with T-dagger; set_qubit_state over (theta, phi) in {k*pi/8}^2 with +-1e-3 offsets; "
                     "parity_meas for all 4+16+64 Pauli strings, with and without leading minus, on all computational basis states, "
                     "products over {0,1,+,-,+i,-i} (all for <=2 qubits; 27+ sublattice for 3 in quick, all 216 in thorough) and "
                     "Bell/GHZ/entangled probes, taking EVERY outcome branch: the returned value must be a possible parity (sign "
                     "applied), the post-measurement state must be the projection of the input on that eigenspace, the ancilla must be "
                     "freed. All of it on the vanilla pipeline and on NV config + NV transpiler + NV flavour controller.",
                note="state-vector backend = the harness (exact); create_ghz is not in the property statement; inputs are probes, operators "
                     "(toffoli, t_inverse) are covered for all states by linearity",
                ref="3/C20"),
}

PENDING = {
}


def main():
    props = [json.loads(l) for l in open(os.path.join(ROOT, "properties.jsonl"))]
    checks = []
    na = []
    for p in props:
        pid = p["id"]
        if pid in CHECKS:
            c = CHECKS[pid]
            checks.append({
                "property_id": pid,
                "quick_cmd": f"./check {pid} --tier quick",
                "thorough_cmd": f"./check {pid} --tier thorough",
                "evidence_file": f"/verif/evidence/{pid}.json",
                "replay_cmd_template": f"./check {pid} --replay {{path}}",
                "engine": "mc",
                "level_claimed": {"category": c["cat"], "text": c["text"], "design_ref": c["ref"]},
                "level_note": c["note"],
                "technique": c["tech"],
            })
        else:
            na.append({"property_id": pid, "reason": PENDING.get(pid, "check not built yet in this session (model-checking "
                       "design in DESIGN.md section 3); not claimed until its explorer exists and is silent on the unchanged tree")})
    man = {
        "version": 1,
        "setup_cmd": "./setup.sh",
        "hooks": {
            "guard": "NETQASM_VERIF",
            "enable": "none needed: /venv/bin/python imports /repo's working tree directly (editable install); every seam is an "
                      "overridable method or module attribute, so there are no guarded source hooks",
            "baseline_off_cmd": "cd /repo && env -u NETQASM_VERIF /venv/bin/python -m pytest -ra -q -p no:cacheprovider --timeout=900 "
                                "--continue-on-collection-errors",
            "source_commits": [],
            "add_only": True,
        },
        "engines": [{"name": "mc", "path": "/verif/mc", "serves_properties": sorted(CHECKS),
                     "kind_free_text": "hand-written bounded-exhaustive explorers in Python driving the real netqasm code: "
                                       "input/program enumerators, explicit-state BFS with canonical hashing, "
                                       "preemption-bounded thread-schedule explorer; reference oracles in mc/"}],
        "checks": checks,
        "not_applicable": na,
        "notes": "All checks: ./check <ID> --tier quick|thorough. Exit 0 held / 1 VIOLATION / 2 broken check. "
                 "known_findings.txt is read-only at run time.",
    }
    with open(os.path.join(ROOT, "MANIFEST.json"), "w") as fh:
        json.dump(man, fh, indent=1)
    print("checks:", [c["property_id"] for c in checks])


if __name__ == "__main__":
    main()
