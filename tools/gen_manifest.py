#!/usr/bin/env python3
"""Regenerates /verif/MANIFEST.json from the table below (run by hand after adding a check)."""
import json
import os

ROOT = os.path.dirname(os.path.dirname(os.path.abspath(__file__)))

CHECKS = {
    "C01": dict(cat="exploration", tech="bounded-exhaustive enumeration of encode/decode round trips on the real codec",
                text="Every instruction class of every flavour is round-tripped through the real encoder and decoder for every "
                     "value of every operand field against two backgrounds, all field pairs over reduced domains, full products "
                     "of small shapes, all 65536 app ids and version byte pairs and all short sequences; the live opcode and "
                     "mnemonic tables are checked for injectivity. Exhaustive inside the stated lattice, so a single- or "
                     "two-field codec fault cannot hide.",
                note="32-bit integers on the boundary lattice only; in-range operands only; CPython ctypes layout on x86-64",
                ref="3/C01"),
    "C02": dict(cat="exploration", tech="bounded-exhaustive enumeration against an independent reference encoder and a frozen opcode table",
                text="bytes(Subroutine) is compared byte for byte with an independent encoder driven by a frozen published "
                     "opcode/operand table for walking-one, all-distinct and complete per-field valuations and all headers; the "
                     "reference bytes are decoded by the real decoder. A consistent renumbering or field swap in encoder and "
                     "decoder, invisible to any round-trip test, is caught.",
                note="the frozen table mc/wiretable.py is trusted as the published table (mov = 42 after the C01 repair)",
                ref="3/C02"),
}

PENDING = {
}


def main():
    props = [json.loads(l) for l in open(os.path.join(ROOT, "properties.jsonl"))]
    checks = []
    na = []
    for p in props:
        pid = p["id"]
        if pid in CHECKS:
            c = CHECKS[pid]
            checks.append({
                "property_id": pid,
                "quick_cmd": f"./check {pid} --tier quick",
                "thorough_cmd": f"./check {pid} --tier thorough",
                "evidence_file": f"/verif/evidence/{pid}.json",
                "replay_cmd_template": f"./check {pid} --replay {{path}}",
                "engine": "mc",
                "level_claimed": {"category": c["cat"], "text": c["text"], "design_ref": c["ref"]},
                "level_note": c["note"],
                "technique": c["tech"],
            })
        else:
            na.append({"property_id": pid, "reason": PENDING.get(pid, "check not built yet in this session (model-checking "
                       "design in DESIGN.md section 3); not claimed until its explorer exists and is silent on the unchanged tree")})
    man = {
        "version": 1,
        "setup_cmd": "./setup.sh",
        "hooks": {
            "guard": "NETQASM_VERIF",
            "enable": "none needed: /venv/bin/python imports /repo's working tree directly (editable install); every seam is an "
                      "overridable method or module attribute, so there are no guarded source hooks",
            "baseline_off_cmd": "cd /repo && env -u NETQASM_VERIF /venv/bin/python -m pytest -ra -q -p no:cacheprovider --timeout=900 "
                                "--continue-on-collection-errors",
            "source_commits": [],
            "add_only": True,
        },
        "engines": [{"name": "mc", "path": "/verif/mc", "serves_properties": sorted(CHECKS),
                     "kind_free_text": "hand-written bounded-exhaustive explorers in Python driving the real netqasm code: "
                                       "input/program enumerators, explicit-state BFS with canonical hashing, "
                                       "preemption-bounded thread-schedule explorer; reference oracles in mc/"}],
        "checks": checks,
        "not_applicable": na,
        "notes": "All checks: ./check <ID> --tier quick|thorough. Exit 0 held / 1 VIOLATION / 2 broken check. "
                 "known_findings.txt is read-only at run time.",
    }
    with open(os.path.join(ROOT, "MANIFEST.json"), "w") as fh:
        json.dump(man, fh, indent=1)
    print("checks:", [c["property_id"] for c in checks])


if __name__ == "__main__":
    main()
