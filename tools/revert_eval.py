#!/usr/bin/env python3
"""For every `fixed:` line of known_findings.txt: undo that fix commit in a scratch worktree (reverse-apply its diff of the
package), run the property's quick check against the worktree (PYTHONPATH overrides the editable install, /repo is never
touched) and record whether the violation is reported again.

  tools/revert_eval.py <scratch-worktree> [sha ...]       -> /verif/seeded/reverted_fixes.json
"""
import json
import os
import re
import subprocess
import sys

ROOT = os.path.dirname(os.path.dirname(os.path.abspath(__file__)))


def sh(cmd, cwd=None, env=None, timeout=3600):
    e = dict(os.environ)
    if env:
        e.update(env)
    p = subprocess.run(cmd, shell=True, cwd=cwd, env=e, capture_output=True, text=True, timeout=timeout)
    return p.returncode, p.stdout + p.stderr


def main():
    wt = sys.argv[1]
    only = set(sys.argv[2:])
    rows = []
    for line in open(os.path.join(ROOT, "known_findings.txt")):
        m = re.match(r"fixed: property=(C\d\d) ([0-9a-f]{7,}) (.*)", line)
        if not m:
            continue
        prop, sha, what = m.groups()
        if only and sha not in only:
            continue
        sh("git checkout -- . && git clean -fdq netqasm", cwd=wt)
        rc, out = sh(f"git -C /repo diff {sha}^ {sha} -- netqasm | git apply -R --3way -", cwd=wt)
        row = {"property": prop, "commit": sha, "what": what[:160]}
        if rc != 0:
            row["reverted"] = False
            row["note"] = "reverse patch does not apply (later fixes touch the same lines): " + out.strip().splitlines()[-1][:160]
            rows.append(row)
            print(prop, sha, "NOT-REVERTIBLE")
            continue
        sh("git reset -q", cwd=wt)
        rct, outt = sh("/venv/bin/python -m pytest -q -p no:cacheprovider tests --ignore=tests/test_external 2>&1 | tail -1", cwd=wt,
                       env={"PYTHONPATH": wt})
        row["tests_with_fix_reverted"] = outt.strip()
        rc, out = sh(f"./check {prop} --tier quick", cwd=ROOT, env={"PYTHONPATH": wt}, timeout=3600)
        fps = [l.strip() for l in out.splitlines() if l.startswith("  fingerprint")]
        row.update(reverted=True, check_exit=rc, detected=(rc == 1), fingerprints=[f[:200] for f in fps[:4]])
        rows.append(row)
        print(prop, sha, "exit", rc, "detected" if rc == 1 else "MISSED", fps[:1])
        sh("git checkout -- . && git clean -fdq netqasm", cwd=wt)
    path = os.path.join(ROOT, "seeded", "reverted_fixes.json")
    if only and os.path.exists(path):
        # only some commits were re-run: their rows replace / extend the stored ones
        old = [r for r in json.load(open(path)) if r["commit"] not in {x["commit"] for x in rows}]
        rows = old + rows
    with open(path, "w") as fh:
        json.dump(rows, fh, indent=1)
    return 0


if __name__ == "__main__":
    sys.exit(main())
