#!/usr/bin/env python3
"""Regression of detection: re-applies stored seeded changes in a scratch worktree and runs the checks that reported them.

  tools/reeval_seeds.py <scratch-worktree> [prefix ...]       e.g.  tools/reeval_seeds.py /tmp/wt/scratch C18 C02-5

For every /verif/seeded/<id>/ (id matching one of the prefixes, all if none given): git apply patch.diff in the worktree,
run `./check <P> --tier quick` with PYTHONPATH=<worktree> for every P in meta.detected_by, revert.  Prints one line per
seed; exit 1 if a seed that was detected is no longer detected.  /repo is never touched.
"""
import json
import os
import subprocess
import sys

ROOT = os.path.dirname(os.path.dirname(os.path.abspath(__file__)))


def sh(cmd, cwd=None, env=None, timeout=3600):
    e = dict(os.environ)
    if env:
        e.update(env)
    p = subprocess.run(cmd, shell=True, cwd=cwd, env=e, capture_output=True, text=True, timeout=timeout)
    return p.returncode, p.stdout + p.stderr


def main():
    wt = sys.argv[1]
    prefixes = sys.argv[2:]
    bad = 0
    base = os.path.join(ROOT, "seeded")
    for sid in sorted(os.listdir(base)):
        d = os.path.join(base, sid)
        if not os.path.exists(os.path.join(d, "patch.diff")) or not os.path.exists(os.path.join(d, "meta.json")):
            continue
        if prefixes and not any(sid.startswith(p) for p in prefixes):
            continue
        meta = json.load(open(os.path.join(d, "meta.json")))
        if meta.get("obsolete_since") or meta.get("not_claimed"):
            print(sid, "skipped:", "obsolete since " + meta["obsolete_since"] if meta.get("obsolete_since") else "not claimed")
            continue
        props = meta.get("detected_by") or [meta["property"]]
        sh("git checkout -- .", cwd=wt)
        rc, out = sh(f"git apply {os.path.join(d, 'patch.diff')}", cwd=wt)
        if rc != 0:
            print(sid, "patch does not apply", out.strip()[:100])
            bad += 1
            continue
        try:
            res = {}
            import time
            for p in props:
                t0 = time.time()
                rc, out = sh(f"./check {p} --tier quick", cwd=ROOT, env={"PYTHONPATH": wt})
                res[p] = rc
                res[p + "_s"] = round(time.time() - t0)
            ok = all(rc == 1 for k, rc in res.items() if not k.endswith('_s'))
            print(sid, "detected" if ok else "NOT-DETECTED", res, flush=True)
            if not ok:
                bad += 1
        finally:
            sh("git checkout -- .", cwd=wt)
    return 1 if bad else 0


if __name__ == "__main__":
    sys.exit(main())
