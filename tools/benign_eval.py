#!/usr/bin/env python3
"""Runs the checks against a property-PRESERVING change (false-alarm test).

  tools/benign_eval.py <worktree> <diff> <id> <property> [<property> ...] [--tier quick]

Applies the diff in the worktree, runs the 171 tests, runs each named check with PYTHONPATH=<worktree> (so /repo is never
touched), reverts.  A check that exits non-zero here raised a false alarm (exit 1) or is brittle (exit 2).
Writes /verif/seeded/benign/<id>/{patch.diff, notes.md, meta.json}.
"""
import json
import os
import shutil
import subprocess
import sys

ROOT = os.path.dirname(os.path.dirname(os.path.abspath(__file__)))


def sh(cmd, cwd=None, env=None, timeout=7200):
    e = dict(os.environ)
    if env:
        e.update(env)
    p = subprocess.run(cmd, shell=True, cwd=cwd, env=e, capture_output=True, text=True, timeout=timeout)
    return p.returncode, p.stdout + p.stderr


def main():
    args = [a for a in sys.argv[1:] if not a.startswith("--")]
    tier = "quick"
    if "--tier" in sys.argv:
        tier = sys.argv[sys.argv.index("--tier") + 1]
        args = [a for a in args if a != tier]
    wt, diff, bid, *props = args
    diff = os.path.abspath(diff)
    env = {"PYTHONPATH": wt}
    sh("git checkout -- .", cwd=wt)
    rc, out = sh(f"git apply {diff}", cwd=wt)
    if rc != 0:
        print("diff does not apply:", out)
        return 2
    meta = {"id": bid, "kind": "property-preserving change", "properties": props, "tier": tier}
    try:
        rct, outt = sh("/venv/bin/python -m pytest -q -p no:cacheprovider tests --ignore=tests/test_external 2>&1 | tail -1", cwd=wt, env=env)
        meta["tests_with_change"] = outt.strip()
        rc, out = sh("/venv/bin/python -c 'import netqasm; print(netqasm.__file__)'", cwd=ROOT, env=env)
        assert out.strip().startswith(wt), out
        results = {}
        for p in props:
            rc, out = sh(f"./check {p} --tier {tier}", cwd=ROOT, env=env)
            lines = [l for l in out.splitlines() if l.startswith("VIOLATION") or l.startswith("  fingerprint") or l.startswith("BROKEN")]
            results[p] = {"exit": rc, "lines": [l[:300] for l in lines[:8]]}
            print(bid, p, "exit", rc, *[l[:260] for l in lines[:4]], sep="\n  ")
        meta["checks_with_change"] = results
        meta["alarms"] = [p for p, r in results.items() if r["exit"] != 0]
    finally:
        sh("git checkout -- .", cwd=wt)
    d = os.path.join(ROOT, "seeded", "benign", bid)
    os.makedirs(d, exist_ok=True)
    prev = os.path.join(d, "meta.json")
    if os.path.exists(prev) and "--merge" in sys.argv:
        # a later run of some of the checks (after the checks changed): newer results replace older ones per check
        old = json.load(open(prev))
        merged = dict(old.get("checks_with_change", {}))
        merged.update(meta["checks_with_change"])
        meta["checks_with_change"] = merged
        meta["properties"] = sorted(set(old.get("properties", [])) | set(props))
        meta["alarms"] = [p for p, r in merged.items() if r["exit"] != 0]
    shutil.copy(diff, os.path.join(d, "patch.diff"))
    notes = os.path.join(os.path.dirname(diff), "notes.md")
    if os.path.exists(notes):
        shutil.copy(notes, os.path.join(d, "notes.md"))
    with open(os.path.join(d, "meta.json"), "w") as fh:
        json.dump(meta, fh, indent=1)
    return 0


if __name__ == "__main__":
    sys.exit(main())
