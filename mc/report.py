"""Evidence writer, VIOLATION / KNOWN-FINDING lines, replay artefacts, worker pool.

A property module exposes

    LEVEL   = "exploration" | "model_checking"
    RULE    = "<how cases are enumerated and what makes one distinct/non-trivial>"
    def run(ctx): ...            # explore, call ctx.merge(parts) / ctx.violation(...)
    def replay(case) -> list     # re-run one recorded case on the real code, return violations

Every shard function returns a `Part` (see `new_part`).  The runner merges the
parts, matches violations against /verif/known_findings.jsonl (read-only), writes
the evidence file and decides the exit code.
"""
from __future__ import annotations

import hashlib
import json
import multiprocessing as mp
import os
import sys
import time
import traceback
from typing import Any, Callable, Dict, Iterable, List, Optional

ROOT = os.path.dirname(os.path.dirname(os.path.abspath(__file__)))
EVIDENCE_DIR = os.path.join(ROOT, "evidence")
REPLAY_DIR = os.path.join(ROOT, "replays")
KNOWN_FILE = os.path.join(ROOT, "known_findings.txt")

MAX_SAMPLES = 12
MAX_VIOLATIONS_PER_FP = 3


def jsonable(x: Any) -> Any:
    if isinstance(x, (str, int, float, bool)) or x is None:
        return x
    if isinstance(x, bytes):
        return x.hex()
    if isinstance(x, dict):
        return {str(k): jsonable(v) for k, v in x.items()}
    if isinstance(x, (list, tuple, set, frozenset)):
        return [jsonable(v) for v in x]
    return repr(x)


def new_part() -> Dict[str, Any]:
    return {
        "evals": 0,          # executions on the real code
        "distinct": 0,       # distinct non-trivial cases (shards partition the space)
        "states": 0,
        "transitions": 0,
        "samples": [],
        "violations": [],    # dicts: fingerprint, what, case, detail
        "counters": {},      # name -> int (vacuity guards, outcome classes)
        "caps": [],          # caps that were hit
        "notes": [],
    }


def count(part: Dict[str, Any], name: str, n: int = 1) -> None:
    c = part["counters"]
    c[name] = c.get(name, 0) + n


def add_violation(part: Dict[str, Any], fingerprint: str, what: str, case: Any, detail: Any = None) -> None:
    vs = part["violations"]
    same = sum(1 for v in vs if v["fingerprint"] == fingerprint)
    count(part, "violation:" + fingerprint)
    if fingerprint not in _open_fingerprints():
        part["nviol"] = part.get("nviol", 0) + 1          # known findings never consume the violation budget
    if same < MAX_VIOLATIONS_PER_FP:
        vs.append({"fingerprint": fingerprint, "what": what, "case": jsonable(case), "detail": jsonable(detail)})


CURRENT_PROP: Optional[str] = None        # set by mc.main
_OPEN_FPS: Optional[frozenset] = None


def _open_fingerprints() -> frozenset:
    global _OPEN_FPS
    if _OPEN_FPS is None:
        _OPEN_FPS = frozenset(k["fingerprint"] for k in load_known()
                              if k.get("status") == "open" and "fingerprint" in k and k.get("property") == CURRENT_PROP)
    return _OPEN_FPS


def over_budget(part: Dict[str, Any], limit: int = 150) -> bool:
    """A shard that has already recorded `limit` violations stops exploring: the verdict is settled, and a change that makes
    many cases expensive (non-terminating programs run to their step horizon) must not turn a 30 s check into a 10 min one.
    Only ever true when there is something to report, so it cannot hide a violation or shrink a clean run."""
    if part.get("nviol", 0) >= limit:
        if not part.get("_budget_noted"):
            part["_budget_noted"] = True
            count(part, "shards-stopped-after-violation-budget")
            part["notes"].append(f"a shard stopped exploring after {limit} violations (coverage counts of this run are partial)")
        return True
    return False


def add_sample(part: Dict[str, Any], sample: Any) -> None:
    if len(part["samples"]) < MAX_SAMPLES:
        part["samples"].append(jsonable(sample))


class CheckBroken(Exception):
    """The check itself is unsound/vacuous (exit 2, never a VIOLATION line)."""


class ImplementationRaised(Exception):
    """An exception that escaped from netqasm's own code while a check was exploring (see `netqasm_origin`); the
    violation is already recorded in ctx.total, the exploration cannot continue."""


def netqasm_origin(exc: BaseException) -> Optional[str]:
    """'<file>:<function>' when the innermost frame of exc's traceback that belongs to either this machinery or the netqasm
    package is netqasm's: the implementation itself raised on an input the check was exploring.  Every check runs to
    completion on the unchanged tree and is deterministic, so there such an exception cannot occur; the checks catch the
    exceptions their oracle allows (rejections, documented errors) themselves.  None when the machinery raised (a broken
    check) or for its own control-flow signals."""
    if not isinstance(exc, Exception) or isinstance(exc, (CheckBroken, ImplementationRaised)):
        return None
    fr = _frames(exc)
    if fr and fr[-1][0] == "netqasm":
        if isinstance(exc, (AttributeError, TypeError)) and _names_harness_class(str(exc)):
            return None           # the implementation tripped over an object the harness injected: the harness is at fault
        return f"{fr[-1][1]}:{fr[-1][2]}"
    return None


def _names_harness_class(text: str) -> bool:
    """does an AttributeError / TypeError message name a class that is defined in this machinery (e.g. an instrumented
    container or a stub stack that lacks a method the implementation now uses)?"""
    import inspect
    import re
    names = set(re.findall(r"[A-Za-z_][A-Za-z0-9_]*", text))
    for mod in list(sys.modules.values()):
        fn = getattr(mod, "__file__", None)
        if not fn or not os.path.abspath(fn).startswith(ROOT + os.sep):
            continue
        for nm, obj in list(vars(mod).items()):
            if inspect.isclass(obj) and getattr(obj, "__module__", None) == mod.__name__ and obj.__name__ in names:
                return True
    # classes built with type(...) at run time (instrumented containers) carry these prefixes
    return any(n.startswith(("Counting", "Sched", "Sim")) for n in names)


def _frames(exc: BaseException) -> List[tuple]:
    try:
        import netqasm
        pkg = os.path.dirname(os.path.abspath(netqasm.__file__)) + os.sep
    except Exception:
        return []
    out = []
    tb = exc.__traceback__
    while tb is not None:
        fn = os.path.abspath(tb.tb_frame.f_code.co_filename)
        if fn.startswith(pkg):
            out.append(("netqasm", "netqasm/" + fn[len(pkg):], tb.tb_frame.f_code.co_name))
        elif fn.startswith(ROOT + os.sep):
            out.append(("verif", fn[len(ROOT) + 1:], tb.tb_frame.f_code.co_name))
        tb = tb.tb_next
    return out


def guard_harness(exc: BaseException) -> None:
    """Called first in every `except Exception as exc:` of a check that turns an exception into an observation or a
    violation: an exception whose innermost frame (among /verif and netqasm frames) is this machinery's own is a harness bug
    or a seam that moved - it must end the run as BROKEN-CHECK, never be mistaken for the implementation's behaviour."""
    fr = _frames(exc)
    if fr and fr[-1][0] == "verif" and not isinstance(exc, CheckBroken):
        raise CheckBroken(f"the harness itself raised {type(exc).__name__}: {str(exc)[:200]} in {fr[-1][1]}:{fr[-1][2]}") from exc
    if fr and fr[-1][0] == "netqasm" and isinstance(exc, (AttributeError, TypeError)) and _names_harness_class(str(exc)):
        raise CheckBroken(f"the implementation tripped over a harness object: {type(exc).__name__}: {str(exc)[:200]}") from exc


def implementation_violation(exc: BaseException, origin: str, case: Any) -> Dict[str, Any]:
    text = str(exc).splitlines()[0][:200] if str(exc) else ""
    return {"fingerprint": f"implementation-raises/{type(exc).__name__}/{origin}",
            "what": f"netqasm raised {type(exc).__name__}: {text} (in {origin}) on an input this check explores; on the unchanged "
                    "tree the same deterministic exploration completes, and rejections the property allows are caught by the check",
            "case": jsonable(case), "detail": jsonable({"traceback": traceback.format_exception(type(exc), exc, exc.__traceback__)[-6:]})}


def _guarded(args):
    fn, shard = args
    try:
        return ("ok", fn(shard))
    except BaseException as exc:  # noqa
        origin = netqasm_origin(exc)
        if origin is not None:
            return ("viol", implementation_violation(exc, origin, {"_fn": f"{fn.__module__}:{fn.__qualname__}", "_shard": shard}))
        return ("err", f"shard {shard!r}: {type(exc).__name__}: {exc}\n{traceback.format_exc()}")


class Ctx:
    def __init__(self, prop: str, tier: str, seed: int, jobs: int, module):
        self.prop = prop
        self.tier = tier
        self.seed = seed
        self.jobs = jobs
        self.module = module
        self.total = new_part()
        self.extra: Dict[str, Any] = {}
        self.assumptions: List[str] = list(getattr(module, "ASSUMPTIONS", []))
        self.exhaustive = True
        self.t0 = time.time()
        self.guards: List[tuple] = []

    # ---- worker pool -------------------------------------------------------------
    def pmap(self, fn: Callable, shards: Iterable, chunksize: int = 1) -> List[Dict[str, Any]]:
        shards = list(shards)
        if not shards:
            return []
        # VERIF_SEED only permutes shard order (results are merged order-independently)
        if self.seed:
            import random
            rnd = random.Random(self.seed)
            order = list(range(len(shards)))
            rnd.shuffle(order)
        else:
            order = list(range(len(shards)))
        work = [(fn, shards[i]) for i in order]
        results: List[Any] = [None] * len(shards)
        if self.jobs <= 1 or len(shards) == 1:
            outs = [_guarded(w) for w in work]
        else:
            mpctx = mp.get_context("fork")
            with mpctx.Pool(min(self.jobs, len(shards))) as pool:
                outs = pool.map(_guarded, work, chunksize)
        viols = [val for status, val in outs if status == "viol"]
        if viols:
            for v in viols:
                count(self.total, "violation:" + v["fingerprint"])
                if sum(1 for x in self.total["violations"] if x["fingerprint"] == v["fingerprint"]) < MAX_VIOLATIONS_PER_FP:
                    self.total["violations"].append(v)
            self.total["notes"].append("exploration aborted: the implementation raised inside a shard (see the implementation-raises/* violation)")
            raise ImplementationRaised(viols[0]["what"])
        for i, (status, val) in zip(order, outs):
            if status == "err":
                raise CheckBroken(val)
            results[i] = val
        for r in results:
            self.merge(r)
        return results

    def merge(self, part: Dict[str, Any]) -> None:
        t = self.total
        for k in ("evals", "distinct", "states", "transitions"):
            t[k] += part.get(k, 0)
        for s in part.get("samples", []):
            if len(t["samples"]) < MAX_SAMPLES:
                t["samples"].append(s)
        for v in part.get("violations", []):
            t["violations"].append(v)
        for k, n in part.get("counters", {}).items():
            t["counters"][k] = t["counters"].get(k, 0) + n
        for c in part.get("caps", []):
            if c not in t["caps"]:
                t["caps"].append(c)
        for c in part.get("notes", []):
            if c not in t["notes"]:
                t["notes"].append(c)

    # ---- determinism gate ------------------------------------------------------------
    def determinism(self, what: str, fn: Callable[[Any], Any], cases: Iterable) -> None:
        """Replays each case twice from a fresh state and demands identical observations; a divergence means the
        explorer does not own all nondeterminism: a broken check, never a VIOLATION."""
        n = 0
        for c in cases:
            a, b = fn(c), fn(c)
            if a != b:
                raise CheckBroken(f"determinism gate failed for {what}: case {c!r} gave two different observations")
            n += 1
        self.extra.setdefault("determinism_replays", {})[what] = n

    # ---- vacuity guards ------------------------------------------------------------
    def require(self, counter: str, minimum: int = 1) -> None:
        self.guards.append((counter, minimum))

    def counter(self, name: str) -> int:
        return self.total["counters"].get(name, 0)


def load_known() -> List[Dict[str, Any]]:
    """known_findings.txt, one finding per line (never written at run time):

        open: property=<id> fingerprint=<fp> <what fails>
        fixed: property=<id> <commit> <what failed>

    Only `open` lines suppress anything, and only the exact fingerprint they name.
    """
    out = []
    if os.path.exists(KNOWN_FILE):
        with open(KNOWN_FILE) as fh:
            for line in fh:
                line = line.strip()
                if not line or line.startswith("#"):
                    continue
                status, _, rest = line.partition(":")
                toks = rest.split()
                rec: Dict[str, Any] = {"status": status.strip()}
                words = []
                for tok in toks:
                    if tok.startswith("property=") and "property" not in rec:
                        rec["property"] = tok[len("property="):]
                    elif tok.startswith("fingerprint=") and "fingerprint" not in rec:
                        rec["fingerprint"] = tok[len("fingerprint="):]
                    else:
                        words.append(tok)
                rec["what"] = " ".join(words)
                out.append(rec)
    return out


def finish(ctx: Ctx) -> int:
    """Match violations against known findings, write replay + evidence, return exit code."""
    prop = ctx.prop
    known = [k for k in load_known() if k.get("property") == prop]
    open_fps = {k["fingerprint"]: k for k in known if k.get("status") == "open" and "fingerprint" in k}
    t = ctx.total

    by_fp: Dict[str, List[Dict[str, Any]]] = {}
    for v in t["violations"]:
        by_fp.setdefault(v["fingerprint"], []).append(v)

    exit_code = 0
    new_fps = []
    known_seen = []
    os.makedirs(REPLAY_DIR, exist_ok=True)
    for fp in sorted(by_fp):
        vs = by_fp[fp]
        n = t["counters"].get("violation:" + fp, len(vs))
        if fp in open_fps:
            known_seen.append(fp)
            print(f"KNOWN-FINDING: property={prop} {fp}: {open_fps[fp].get('what', vs[0]['what'])} ({n} occurrence(s) this run)")
            continue
        new_fps.append(fp)
        v = vs[0]
        digest = hashlib.sha1(json.dumps([fp, v["case"]], sort_keys=True).encode()).hexdigest()[:10]
        safe = "".join(c if c.isalnum() or c in "-_" else "_" for c in fp)[:60]
        path = os.path.join(REPLAY_DIR, f"{prop}-{safe}-{digest}.json")
        with open(path, "w") as fh:
            json.dump({"property": prop, "fingerprint": fp, "what": v["what"], "case": v["case"],
                       "detail": v["detail"], "occurrences": n, "tier": ctx.tier,
                       "replay_cmd": f"./check {prop} --replay {path}"}, fh, indent=1, sort_keys=True)
        print(f"VIOLATION property={prop} replay={path}")
        print(f"  fingerprint={fp} occurrences={n}: {v['what']}")
        exit_code = 1

    stale = [fp for fp in open_fps if fp not in known_seen]

    broken: Optional[str] = None
    if exit_code == 0:
        for name, minimum in ctx.guards:
            if t["counters"].get(name, 0) < minimum:
                broken = f"vacuity guard failed: counter {name!r} = {t['counters'].get(name, 0)} < {minimum}"
                break

    if exit_code == 0 and broken is None and not t["samples"]:
        broken = "no sample case was recorded (evidence would be invalid)"
    level = getattr(ctx.module, "LEVEL", "exploration")
    cov: Dict[str, Any] = {
        "evaluations": t["evals"],
        "distinct_nontrivial": t["distinct"],
        "rule": getattr(ctx.module, "RULE", ""),
        "samples": t["samples"][:MAX_SAMPLES],
        "exhaustive": bool(ctx.exhaustive and not t["caps"]),
        "caps_hit": t["caps"],
        "counters": {k: v for k, v in sorted(t["counters"].items())},
        "workers": ctx.jobs,
    }
    if level == "model_checking":
        cov["states"] = t["states"]
        cov["transitions"] = t["transitions"]
        # every explored transition is an execution of the real implementation
        cov["traces_validated_against_impl"] = t["evals"]
    cov.update(ctx.extra)
    if t["notes"]:
        cov["notes"] = t["notes"]
    cov["known_findings_observed"] = known_seen
    cov["known_findings_stale"] = stale
    cov["new_violation_fingerprints"] = new_fps
    ev = {
        "property_id": prop,
        "tier": ctx.tier,
        "seed": ctx.seed,
        "level": level,
        "coverage": cov,
        "assumptions": ctx.assumptions,
        "wall_s": round(time.time() - ctx.t0, 3),
        "violations": len(new_fps),
    }
    os.makedirs(EVIDENCE_DIR, exist_ok=True)
    tmp = os.path.join(EVIDENCE_DIR, f".{prop}.json.tmp{os.getpid()}")
    with open(tmp, "w") as fh:
        json.dump(ev, fh, indent=1, sort_keys=True)
    os.replace(tmp, os.path.join(EVIDENCE_DIR, f"{prop}.json"))

    summary = (f"{prop} tier={ctx.tier} evals={t['evals']} distinct={t['distinct']}"
               + (f" states={t['states']} transitions={t['transitions']}" if level == "model_checking" else "")
               + f" new_violations={len(new_fps)} known={len(known_seen)} stale_known={len(stale)}"
               + f" caps={t['caps']} wall={ev['wall_s']}s")
    print(summary)
    if stale:
        print(f"note: open known finding(s) not observed in this run (stale?): {stale}")
    if broken:
        print(f"BROKEN-CHECK property={prop}: {broken}", file=sys.stderr)
        return 2
    return exit_code
