"""Reset of every module-level / class-level mutable global of netqasm between executions.

Two layers:

* the globals this machinery knows by name (application-id registries, shared memories, loggers, the hardware flag);
* a generic sweep: at the first reset every netqasm module is imported and every module-level and class-level attribute
  that is an *empty* container (list / dict / set / deque - registries and caches start empty, constant tables do not) or an
  underscore-named scalar is recorded; every later reset empties those containers and restores those scalars.  A registry
  or cache that a later version of netqasm adds is therefore reset as well, and an exploration that replays histories
  on fresh objects stays deterministic without this file having to know the new name.

State that leaks between *coexisting* objects (a per-object list made per-class) is not hidden by this: the checks that
are about such objects build two of them side by side (C01/C02/C17 flavours, C09 connections, C13 controllers).
"""
from __future__ import annotations

import collections
import inspect
import sys
from typing import Any, Dict, List, Tuple

_CONTAINERS = (list, dict, set, collections.deque)
_SCALARS = (int, float, bool, str, type(None))
_PRISTINE_CONTAINERS: List[Tuple[Any, str, Any]] = []      # (owner, name, container object)
_PRISTINE_SCALARS: List[Tuple[Any, str, Any]] = []         # (owner, name, value)
_SWEPT = False


def _sweep() -> None:
    global _SWEPT
    _SWEPT = True
    import importlib
    import pkgutil

    import netqasm
    for m in pkgutil.walk_packages(netqasm.__path__, "netqasm."):
        if ".examples" in m.name or ".external" in m.name or m.name.endswith("__main__"):
            continue
        try:
            importlib.import_module(m.name)
        except BaseException:      # optional back ends that are not installed
            continue
    seen = set()
    for modname, mod in list(sys.modules.items()):
        if not (modname == "netqasm" or modname.startswith("netqasm.")) or mod is None:
            continue
        owners = [mod] + [c for c in vars(mod).values() if inspect.isclass(c) and getattr(c, "__module__", None) == modname]
        for owner in owners:
            for name, val in list(vars(owner).items()):
                if name.startswith("__") or name.endswith("_") or name in ("_field_defaults", "_fields") \
                        or (id(owner), name) in seen:
                    continue             # dunder / Enum sunder / namedtuple / ctypes machinery
                seen.add((id(owner), name))
                if isinstance(val, _CONTAINERS) and not isinstance(val, tuple) and len(val) == 0:
                    _PRISTINE_CONTAINERS.append((owner, name, val))
                elif name.startswith("_") and not name.isupper() and isinstance(val, _SCALARS) and not callable(val):
                    _PRISTINE_SCALARS.append((owner, name, val))


def reset() -> None:
    from netqasm.backend.executor import Executor
    from netqasm.runtime import settings
    from netqasm.sdk.connection import BaseNetQASMConnection, DebugConnection
    from netqasm.sdk.shared_memory import SharedMemoryManager

    if not _SWEPT:
        _sweep()
    SharedMemoryManager._MEMORIES.clear()
    BaseNetQASMConnection._app_ids.clear()
    BaseNetQASMConnection._app_names.clear()
    Executor._INSTR_LOGGERS.clear()
    DebugConnection.node_ids = {}
    settings._is_using_hardware = False
    try:
        from netqasm.sdk.classical_communication.thread_socket.socket import ThreadSocket
        ThreadSocket._COMM_LOGGERS.clear()
    except Exception:
        pass
    for owner, name, obj in _PRISTINE_CONTAINERS:
        cur = vars(owner).get(name)
        if cur is obj:
            if obj:
                obj.clear()
        elif isinstance(cur, _CONTAINERS) and cur:
            cur.clear()                      # rebound to another container since: empty that one
    for owner, name, val in _PRISTINE_SCALARS:
        if vars(owner).get(name, val) is not val and vars(owner).get(name) != val:
            try:
                setattr(owner, name, val)
            except (AttributeError, TypeError):
                pass


def swept() -> Dict[str, int]:
    return {"containers": len(_PRISTINE_CONTAINERS), "scalars": len(_PRISTINE_SCALARS)}


class hardware_mode:
    """with hardware_mode(True): ... (always restored)"""

    def __init__(self, on: bool):
        self.on = on

    def __enter__(self):
        from netqasm.runtime import settings
        self.prev = settings._is_using_hardware
        settings._is_using_hardware = self.on

    def __exit__(self, *a):
        from netqasm.runtime import settings
        settings._is_using_hardware = self.prev
