"""Reset of every module-level mutable global of netqasm between executions."""
from __future__ import annotations


def reset() -> None:
    from netqasm.backend.executor import Executor
    from netqasm.runtime import settings
    from netqasm.sdk.connection import BaseNetQASMConnection, DebugConnection
    from netqasm.sdk.shared_memory import SharedMemoryManager

    SharedMemoryManager._MEMORIES.clear()
    BaseNetQASMConnection._app_ids.clear()
    BaseNetQASMConnection._app_names.clear()
    Executor._INSTR_LOGGERS.clear()
    DebugConnection.node_ids = {}
    settings._is_using_hardware = False
    try:
        from netqasm.sdk.classical_communication.thread_socket.socket import ThreadSocket
        ThreadSocket._COMM_LOGGERS.clear()
    except Exception:
        pass


class hardware_mode:
    """with hardware_mode(True): ... (always restored)"""

    def __init__(self, on: bool):
        self.on = on

    def __enter__(self):
        from netqasm.runtime import settings
        self.prev = settings._is_using_hardware
        settings._is_using_hardware = self.on

    def __exit__(self, *a):
        from netqasm.runtime import settings
        settings._is_using_hardware = self.prev
