"""AutoLink: a scripted link layer for properties that are not about interleavings (C09, C10, C20).

Default schedule: when the executor records a create request / a receive registration, the
responses for its pairs are queued; one response is delivered each time a wait instruction
would block.  Keep-type responses put a real Bell pair into the controller's state vector
(local half on a fresh physical qubit, remote half held by the harness).
"""
from __future__ import annotations

from typing import Any, Callable, Dict, List, Optional, Tuple

from . import simctl

BELL_NAMES = ["PHI_PLUS", "PSI_PLUS", "PSI_MINUS", "PHI_MINUS"]


class AutoLink:
    def __init__(self, ctrl: simctl.SimController, bell_of: Optional[Callable[[int, int], str]] = None,
                 response_format: str = "native"):
        """bell_of(request_index, pair_index) -> Bell state name.  response_format: "native" (LinkLayerOKTypeK with
        netqasm's own numbering) or "qlink_1_0" (qlink_interface.ResCreateAndKeep, converted by the executor)."""
        self.ctrl = ctrl
        self.ex = ctrl.executor
        self.bell_of = bell_of or (lambda r, p: "PHI_PLUS")
        self.fmt = response_format
        self.queue: List[Tuple] = []
        self.delivered: List[Dict[str, Any]] = []
        self.nreq = 0
        self.next_remote = 0
        self.seq = 0
        ctrl.stack.on_request = self.on_request
        self.ex.on_wait = self.on_wait

    def on_request(self, kind, data):
        r = self.nreq
        self.nreq += 1
        if kind == "create":
            tp = data.type.name           # K / M / R
            for p in range(data.number):
                self.queue.append((r, p, tp, "create", data.remote_node_id, data.purpose_id, data))
        else:
            remote, purpose, num = data
            for p in range(num):
                self.queue.append((r, p, "K?", "recv", remote, purpose, None))

    def fresh_physical(self) -> int:
        used = set(self.ex._used_physical_qubit_addresses)
        i = 0
        while i in used or self.ex.qs.has(i):
            i += 1
        return i

    def on_wait(self):
        if not self.queue:
            raise simctl.Blocked("wait instruction blocks and the link layer has nothing left to deliver")
        self.deliver_next()

    def deliver_next(self) -> None:
        from netqasm.qlink_compat import BellState, LinkLayerOKTypeK, LinkLayerOKTypeM, ReturnType
        r, p, tp, role, remote, purpose, req = self.queue.pop(0)
        bell = self.bell_of(r, p)
        directionality = 0 if role == "create" else 1
        self.seq += 1
        if tp in ("K", "K?"):
            phys = self.fresh_physical()
            rname = ("remote", self.next_remote)
            self.next_remote += 1
            self.ex.qs.add_pair(phys, rname, bell)
            self.delivered.append({"request": r, "pair": p, "phys": phys, "remote": rname, "bell": bell, "role": role})
            if self.fmt == "qlink_1_0":
                import qlink_interface as ql
                resp = ql.ResCreateAndKeep(create_id=r, logical_qubit_id=phys, directionality_flag=directionality,
                                           sequence_number=self.seq, purpose_id=purpose, remote_node_id=remote, goodness=1.0,
                                           time_of_goodness=0, bell_state=ql.BellState[bell])
            else:
                resp = LinkLayerOKTypeK(type=ReturnType.OK_K, create_id=r, logical_qubit_id=phys, directionality_flag=directionality,
                                        sequence_number=self.seq, purpose_id=purpose, remote_node_id=remote, goodness=1,
                                        goodness_time=0, bell_state=BellState[bell])
        else:
            resp = LinkLayerOKTypeM(type=ReturnType.OK_M, create_id=r, measurement_outcome=0, measurement_basis=0,
                                    directionality_flag=directionality, sequence_number=self.seq, purpose_id=purpose,
                                    remote_node_id=remote, goodness=1, bell_state=BellState[bell])
            self.delivered.append({"request": r, "pair": p, "bell": bell, "role": role, "type": "M"})
        self.ex._handle_epr_response(resp)
