"""Frozen NetQASM wire table (DESIGN.md appendix A).

This is DATA OF THE VERIFIER: it is *not* derived from /repo at run time.  A
consistent renumbering of an opcode (or reordering of operands) in the repository's
encoder *and* decoder keeps every round trip intact and is exactly the
interoperability break property C02 forbids; only a table that lives outside the
repository can see it.

Operand kinds: reg (1 byte: bank | index << 2), imm8 (1 unsigned byte), int32 and
addr (4 bytes little-endian two's complement), entry = addr + reg,
slice = addr + reg + reg.  Zero padding to 7 bytes.
"""

CORE = {
    "qalloc": (1, ["reg"]),
    "init": (2, ["reg"]),
    "array": (3, ["reg", "addr"]),
    "set": (4, ["reg", "int32"]),
    "store": (5, ["reg", "entry"]),
    "load": (6, ["reg", "entry"]),
    "undef": (7, ["entry"]),
    "lea": (8, ["reg", "addr"]),
    "jmp": (9, ["int32"]),
    "bez": (10, ["reg", "int32"]),
    "bnz": (11, ["reg", "int32"]),
    "beq": (12, ["reg", "reg", "int32"]),
    "bne": (13, ["reg", "reg", "int32"]),
    "blt": (14, ["reg", "reg", "int32"]),
    "bge": (15, ["reg", "reg", "int32"]),
    "add": (16, ["reg", "reg", "reg"]),
    "sub": (17, ["reg", "reg", "reg"]),
    "addm": (18, ["reg", "reg", "reg", "reg"]),
    "subm": (19, ["reg", "reg", "reg", "reg"]),
    "meas": (32, ["reg", "reg"]),
    "create_epr": (33, ["reg", "reg", "reg", "reg", "reg"]),
    "recv_epr": (34, ["reg", "reg", "reg", "reg"]),
    "wait_all": (35, ["slice"]),
    "wait_any": (36, ["slice"]),
    "wait_single": (37, ["entry"]),
    "qfree": (38, ["reg"]),
    "ret_reg": (39, ["reg"]),
    "ret_arr": (40, ["addr"]),
    "meas_basis": (41, ["reg", "reg", "imm8", "imm8", "imm8", "imm8"]),
    "breakpoint": (100, ["imm8", "imm8"]),
}

VANILLA = {
    "x": (20, ["reg"]),
    "y": (21, ["reg"]),
    "z": (22, ["reg"]),
    "h": (23, ["reg"]),
    "s": (24, ["reg"]),
    "k": (25, ["reg"]),
    "t": (26, ["reg"]),
    "rot_x": (27, ["reg", "imm8", "imm8"]),
    "rot_y": (28, ["reg", "imm8", "imm8"]),
    "rot_z": (29, ["reg", "imm8", "imm8"]),
    "cnot": (30, ["reg", "reg"]),
    "cphase": (31, ["reg", "reg"]),
    # `mov` is a vanilla-only pseudo instruction (expanded by the NV transpiler, never
    # meant for a controller).  The pinned tree numbered it 41, clashing with
    # meas_basis (C01 finding, repaired by a "fix:" commit); the table carries the
    # repaired value.
    "mov": (42, ["reg", "reg"]),
}

NV = {
    "rot_x": (27, ["reg", "imm8", "imm8"]),
    "rot_y": (28, ["reg", "imm8", "imm8"]),
    "rot_z": (29, ["reg", "imm8", "imm8"]),
    "crot_x": (30, ["reg", "reg", "imm8", "imm8"]),
    "crot_y": (31, ["reg", "reg", "imm8", "imm8"]),
}

REIDS: dict = {}

FLAVOURS = {
    "vanilla": {**CORE, **VANILLA},
    "nv": {**CORE, **NV},
    "reids": {**CORE, **REIDS},
}

BANKS = {"R": 0, "C": 1, "Q": 2, "M": 3}

LEAVES = {
    "reg": ["reg"],
    "imm8": ["imm8"],
    "int32": ["int32"],
    "addr": ["int32"],
    "entry": ["int32", "reg"],
    "slice": ["int32", "reg", "reg"],
}


def leaf_kinds(kinds):
    out = []
    for k in kinds:
        out.extend(LEAVES[k])
    return out
