"""Independent reference interpreter for NetQASM (DESIGN.md appendix B).

Does not import netqasm.backend.  Works on a neutral program form:

    instr  = (mnemonic, [operand, ...])
    operand = int                           immediate / literal (source level: also in register positions)
            | ("r", bank, index)            register, bank in "RCQM"
            | ("addr", a)
            | ("entry", a, idx)             idx: register operand or int (source level)
            | ("slice", a, start, stop)     start/stop: register operand or int (source level)
            | ("label", name)               source level only

`from_real(instr)` converts the repository's instruction objects (ICmd or
NetQASMInstruction) into that form by reading their mnemonic/operands only.

Status of a step: ("ok",) | ("done",) | ("blocked",) | ("fault", required: bool, reason)
| ("unspecified", reason) | ("unsupported", reason).
"""
from __future__ import annotations

import math
from typing import Any, Callable, Dict, List, Optional, Sequence, Tuple

from . import qsim

BANKS = "RCQM"
BRANCH_BIN = {"beq": lambda a, b: a == b, "bne": lambda a, b: a != b, "blt": lambda a, b: a < b, "bge": lambda a, b: a >= b}
BRANCH_UN = {"bez": lambda a: a == 0, "bnz": lambda a: a != 0}
GATES1 = ("x", "y", "z", "h", "k", "s", "t")
ROTS = {"rot_x": "x", "rot_y": "y", "rot_z": "z"}
CROTS = {"crot_x": "x", "crot_y": "y", "crot_z": "z"}


# ----------------------------------------------------------------------------- conversion
def op_from_real(op) -> Any:
    from netqasm.lang import operand as O
    if isinstance(op, bool):
        raise TypeError("bool operand")
    if isinstance(op, int):
        return int(op)
    if isinstance(op, O.Immediate):
        return int(op.value)
    if isinstance(op, O.Register):
        return ("r", op.name.name, op.index)
    if isinstance(op, O.Address):
        return ("addr", op.address)
    if isinstance(op, O.ArrayEntry):
        a = op.address.address if isinstance(op.address, O.Address) else op.address
        return ("entry", a, op_from_real(op.index))
    if isinstance(op, O.ArraySlice):
        a = op.address.address if isinstance(op.address, O.Address) else op.address
        return ("slice", a, op_from_real(op.start), op_from_real(op.stop))
    if isinstance(op, O.Label):
        return ("label", op.name)
    if isinstance(op, O.Template):
        return ("template", op.name)
    raise TypeError(f"unknown operand {op!r}")


def from_real(instr) -> Tuple[str, List[Any]]:
    """NetQASMInstruction or ICmd -> neutral form."""
    if hasattr(instr, "instruction"):      # ICmd
        mn = instr.instruction.name.lower()
        ops = list(getattr(instr, "args", []) or []) + list(instr.operands)
    else:
        mn = instr.mnemonic
        ops = list(instr.operands)
    return (mn, [op_from_real(o) for o in ops])


def program_from_subroutine(sub) -> List[Tuple[str, List[Any]]]:
    from netqasm.lang.instr.base import DebugInstruction
    return [from_real(i) for i in sub.instructions if not isinstance(i, DebugInstruction)]


# ----------------------------------------------------------------------------- state
class RefState:
    def __init__(self, unit_size: int = 5):
        self.regs: Dict[Tuple[str, int], int] = {}
        self.arrays: Dict[int, List[Optional[int]]] = {}
        self.shared_regs: Dict[Tuple[str, int], int] = {}
        self.shared_arrays: Dict[int, List[Optional[int]]] = {}
        self.alloc: set = set()
        self.unit_size = unit_size

    def copy(self) -> "RefState":
        s = RefState(self.unit_size)
        s.regs = dict(self.regs)
        s.arrays = {a: list(v) for a, v in self.arrays.items()}
        s.shared_regs = dict(self.shared_regs)
        s.shared_arrays = {a: list(v) for a, v in self.shared_arrays.items()}
        s.alloc = set(self.alloc)
        return s

    def snapshot(self) -> Dict[str, Any]:
        return {
            "regs": {f"{b}{i}": v for (b, i), v in sorted(self.regs.items())},
            "arrays": {str(a): list(v) for a, v in sorted(self.arrays.items())},
            "shared_regs": {f"{b}{i}": v for (b, i), v in sorted(self.shared_regs.items())},
            "shared_arrays": {str(a): list(v) for a, v in sorted(self.shared_arrays.items())},
            "alloc": sorted(self.alloc),
        }


class QModel:
    """Quantum part: virtual id -> qubit of a qsim.QState; outcome provider decides measurements."""

    def __init__(self, outcome: Optional[Callable[[float, float], int]] = None):
        self.q = qsim.QState()
        self.outcome = outcome or (lambda p0, p1: 0 if p0 > 1e-9 else 1)
        self.trace: List[Tuple] = []
        self.fresh = 0
        self.vmap: Dict[int, Any] = {}

    def alloc(self, v: int) -> None:
        self.fresh += 1
        name = ("q", self.fresh)
        self.q.add(name)
        self.vmap[v] = name

    def free(self, v: int) -> None:
        self.q.remove(self.vmap.pop(v))

    def vector(self) -> Any:
        """State of the live virtual qubits (sorted by virtual id) + garbage, canonical order."""
        order = [self.vmap[v] for v in sorted(self.vmap)] + [n for n in self.q.order if n not in self.vmap.values()]
        return self.q.vector(order)


# ----------------------------------------------------------------------------- machine
class RefVM:
    def __init__(self, program: Sequence[Tuple[str, List[Any]]], state: Optional[RefState] = None,
                 labels: Optional[Dict[str, int]] = None, qmodel: Optional[QModel] = None):
        self.prog = list(program)
        self.s = state or RefState()
        self.labels = labels or {}
        self.pc = 0
        self.steps = 0
        self.trace: List[int] = []
        self.qm = qmodel

    # ---- operand access ---------------------------------------------------------
    def val(self, op) -> Optional[int]:
        """Value of a register operand or literal; None = undefined."""
        if isinstance(op, int):
            return op
        if op[0] == "r":
            return self.s.regs.get((op[1], op[2]))
        raise TypeError(op)

    def setreg(self, op, v: int) -> None:
        assert op[0] == "r", op
        self.s.regs[(op[1], op[2])] = v

    def target(self, op) -> Optional[int]:
        if isinstance(op, int):
            return op
        if op[0] == "label":
            return self.labels[op[1]]
        raise TypeError(op)

    # ---- one step -----------------------------------------------------------------
    def step(self) -> Tuple:
        if self.pc >= len(self.prog):
            return ("done",)
        if self.pc < 0:
            return ("unspecified", "negative program counter")
        mn, ops = self.prog[self.pc]
        st = self._exec(mn, ops)
        if st[0] == "ok":
            self.steps += 1
            self.trace.append(self.pc if st[-1] is None else st[-1])
            return ("ok",)
        return st

    def _exec(self, mn: str, ops: List[Any]) -> Tuple:
        s = self.s
        here = self.pc
        nxt = ("ok", here)

        def adv():
            self.pc += 1
            return nxt

        if mn == "set":
            self.setreg(ops[0], ops[1])
            return adv()
        if mn in ("add", "sub", "addm", "subm"):
            a, b = self.val(ops[1]), self.val(ops[2])
            if mn in ("addm", "subm"):
                m = self.val(ops[3])
                if m is None:
                    return ("unspecified", "modulus register undefined")
                if m < 1:
                    return ("fault", True, "modulus below one")
            if a is None or b is None:
                return ("unspecified", "arithmetic on an undefined register")
            r = a + b if mn in ("add", "addm") else a - b
            if mn in ("addm", "subm"):
                r = r - m * math.floor(r / m) if False else ((r % m) + m) % m
            self.setreg(ops[0], r)
            return adv()
        if mn == "array":
            n = self.val(ops[0])
            if n is None or n < 0:
                return ("unspecified", "array size undefined or negative")
            s.arrays[ops[1][1]] = [None] * n
            return adv()
        if mn in ("store", "load", "undef", "wait_single"):
            entry = ops[-1]
            a = entry[1]
            i = self.val(entry[2])
            if mn == "store":
                v = self.val(ops[0])
                if v is None:
                    return ("fault", True, "store from an undefined register")
            if i is None or i < 0:
                return ("unspecified", "array index undefined or negative")
            if a not in s.arrays:
                return ("fault", False, "no such array")
            arr = s.arrays[a]
            if i >= len(arr):
                return ("fault", True, "index past the end of the array")
            if mn == "store":
                arr[i] = v
            elif mn == "load":
                if arr[i] is None:
                    return ("fault", True, "load of an undefined entry")
                self.setreg(ops[0], arr[i])
            elif mn == "undef":
                arr[i] = None
            else:
                if arr[i] is None:
                    return ("blocked",)
            return adv()
        if mn in ("wait_all", "wait_any"):
            sl = ops[0]
            a, lo, hi = sl[1], self.val(sl[2]), self.val(sl[3])
            if lo is None or hi is None or lo < 0 or hi < 0:
                return ("unspecified", "slice bound undefined or negative")
            if a not in s.arrays:
                return ("fault", False, "no such array")
            arr = s.arrays[a]
            if hi > len(arr) or lo > hi:
                return ("unspecified", "slice bounds out of range")
            vals = arr[lo:hi]
            if mn == "wait_all":
                ready = all(v is not None for v in vals)
            else:
                ready = any(v is not None for v in vals)
                if not vals:
                    return ("unspecified", "wait_any on an empty slice")
            if not ready:
                return ("blocked",)
            return adv()
        if mn == "lea":
            self.setreg(ops[0], ops[1][1])
            return adv()
        if mn == "jmp":
            t = self.target(ops[0])
            if t < 0:
                return ("unspecified", "negative jump target")
            self.pc = t
            return nxt
        if mn in BRANCH_UN:
            a = self.val(ops[0])
            if a is None:
                return ("unspecified", "branch on an undefined register")
            if BRANCH_UN[mn](a):
                t = self.target(ops[1])
                if t < 0:
                    return ("unspecified", "negative jump target")
                self.pc = t
                return nxt
            return adv()
        if mn in BRANCH_BIN:
            a, b = self.val(ops[0]), self.val(ops[1])
            if a is None or b is None:
                return ("unspecified", "branch on an undefined register")
            if BRANCH_BIN[mn](a, b):
                t = self.target(ops[2])
                if t < 0:
                    return ("unspecified", "negative jump target")
                self.pc = t
                return nxt
            return adv()
        if mn == "ret_reg":
            v = self.val(ops[0])
            if v is None:
                return ("fault", False, "ret_reg of an undefined register")
            s.shared_regs[(ops[0][1], ops[0][2])] = v
            return adv()
        if mn == "ret_arr":
            a = ops[0][1]
            if a not in s.arrays:
                return ("fault", False, "no such array")
            s.shared_arrays[a] = list(s.arrays[a])
            return adv()
        if mn in ("qalloc", "qfree"):
            q = self.val(ops[0])
            if q is None or q < 0:
                return ("unspecified", "qubit address undefined or negative")
            if q >= s.unit_size:
                return ("fault", False, "qubit address outside the unit module")
            if mn == "qalloc":
                if q in s.alloc:
                    return ("fault", True, "double allocation")
                s.alloc.add(q)
                if self.qm is not None:
                    self.qm.alloc(q)
            else:
                if q not in s.alloc:
                    return ("fault", True, "free of an unallocated qubit")
                s.alloc.discard(q)
                if self.qm is not None:
                    self.qm.free(q)
            return adv()
        if mn == "breakpoint":
            return adv()
        # ---- quantum ---------------------------------------------------------------
        if mn == "init" or mn in GATES1 or mn in ROTS or mn in ("meas", "meas_basis"):
            q = self.val(ops[0])
            if q is None or q < 0:
                return ("unspecified", "qubit address undefined or negative")
            if q not in s.alloc:
                return ("fault", False, "quantum operation on an unallocated qubit")
            if self.qm is not None:
                name = self.qm.vmap[q]
                if mn == "init":
                    self.qm.q.reset(name)
                    self.qm.trace.append(("init", q))
                elif mn in GATES1:
                    self.qm.q.apply(qsim.GATES1[mn], name)
                    self.qm.trace.append((mn, q))
                elif mn in ROTS:
                    self.qm.q.apply(qsim.rot(ROTS[mn], qsim.angle(ops[1], ops[2])), name)
                    self.qm.trace.append((mn, q, ops[1], ops[2]))
                else:
                    if mn == "meas_basis":
                        x1, y, x2, d = ops[2:6]
                        for ax, n in (("x", x1), ("y", y), ("x", x2)):
                            self.qm.q.apply(qsim.rot(ax, qsim.angle(n, d)), name)
                    p0, p1 = self.qm.q.probabilities(name)
                    out = self.qm.outcome(p0, p1)
                    self.qm.q.project(name, out)
                    if mn == "meas_basis":
                        for ax, n in (("x", x2), ("y", y), ("x", x1)):
                            self.qm.q.apply(qsim.rot(ax, -qsim.angle(n, d)), name)
                    self.setreg(ops[1], out)
                    self.qm.trace.append((mn, q, out))
            elif mn in ("meas", "meas_basis"):
                self.setreg(ops[1], 0)
            return adv()
        if mn in ("cnot", "cphase", "mov") or mn in CROTS:
            q0, q1 = self.val(ops[0]), self.val(ops[1])
            if q0 is None or q1 is None or q0 < 0 or q1 < 0:
                return ("unspecified", "qubit address undefined or negative")
            if q0 not in s.alloc or q1 not in s.alloc:
                return ("fault", False, "quantum operation on an unallocated qubit")
            if q0 == q1:
                return ("unspecified", "two-qubit gate on one qubit")
            if self.qm is not None:
                n0, n1 = self.qm.vmap[q0], self.qm.vmap[q1]
                if mn == "cnot":
                    self.qm.q.apply(qsim.CNOT, n0, n1)
                elif mn == "cphase":
                    self.qm.q.apply(qsim.CPHASE, n0, n1)
                elif mn == "mov":
                    self.qm.q.apply(qsim.SWAP, n0, n1)
                else:
                    self.qm.q.apply(qsim.crot(CROTS[mn], qsim.angle(ops[2], ops[3])), n0, n1)
                self.qm.trace.append((mn, q0, q1) + tuple(ops[2:]))
            return adv()
        return ("unsupported", mn)

    def run(self, max_steps: int = 64) -> Tuple:
        """Runs to completion / first non-ok status / step bound ('horizon')."""
        while True:
            if self.steps >= max_steps:
                return ("horizon",)
            st = self.step()
            if st[0] != "ok":
                return st
