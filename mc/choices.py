"""Stateless enumeration of all choice sequences (measurement outcomes, environment answers)."""
from __future__ import annotations

from typing import Any, Callable, Iterator, List, Tuple


class Chooser:
    def __init__(self, prefix=()):
        self.prefix = list(prefix)
        self.log: List[Tuple[int, int]] = []

    def choose(self, n: int) -> int:
        """Picks one of n options: replays the prefix, then always option 0."""
        k = len(self.log)
        idx = self.prefix[k] if k < len(self.prefix) else 0
        if idx >= n:
            raise RuntimeError(f"replay divergence: choice {idx} of {n} at point {k}")
        self.log.append((idx, n))
        return idx

    def outcome(self, p0: float, p1: float) -> int:
        """Measurement outcome: branches only when both outcomes are possible."""
        if p0 > 1e-9 and p1 > 1e-9:
            return self.choose(2)
        return 0 if p0 > 1e-9 else 1


def explore(run: Callable[[Chooser], Any], max_runs: int = 100000) -> Iterator[Tuple[List[int], Any]]:
    """Yields (choices, result) for every complete choice sequence (depth-first, option order)."""
    stack: List[List[int]] = [[]]
    runs = 0
    while stack:
        prefix = stack.pop()
        ch = Chooser(prefix)
        result = run(ch)
        runs += 1
        choices = [c for c, _ in ch.log]
        yield choices, result
        if runs >= max_runs:
            raise RuntimeError("choice exploration exceeded max_runs")
        for i in range(len(ch.log) - 1, len(prefix) - 1, -1):
            idx, n = ch.log[i]
            for alt in range(idx + 1, n):
                stack.append(choices[:i] + [alt])


class Script:
    """Replays a recorded outcome list; an infeasible recorded outcome is reported through .diverged."""

    def __init__(self, outcomes):
        self.outcomes = list(outcomes)
        self.pos = 0
        self.diverged = None

    def outcome(self, p0: float, p1: float) -> int:
        if self.pos >= len(self.outcomes):
            self.diverged = f"measurement #{self.pos} has no counterpart"
            return 0 if p0 > 1e-9 else 1
        o = self.outcomes[self.pos]
        self.pos += 1
        if (p1 if o else p0) <= 1e-9:
            self.diverged = f"measurement #{self.pos - 1}: outcome {o} has probability 0 here"
            return 1 - o
        return o
