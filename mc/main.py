"""./check <PROP> [--tier quick|thorough] [--replay FILE] [--jobs N]"""
from __future__ import annotations

import argparse
import importlib
import json
import logging
import os
import sys
import traceback

from . import report


def main(argv=None) -> int:
    ap = argparse.ArgumentParser()
    ap.add_argument("prop")
    ap.add_argument("--tier", default=os.environ.get("VERIF_TIER", "quick"), choices=["quick", "thorough"])
    ap.add_argument("--replay", default=None)
    ap.add_argument("--jobs", type=int, default=int(os.environ.get("VERIF_JOBS", "0")) or (os.cpu_count() or 4))
    args = ap.parse_args(argv)
    try:
        seed = int(os.environ.get("VERIF_SEED", "0") or 0)
    except ValueError:
        seed = 0

    logging.disable(logging.WARNING)
    prop = args.prop.upper()
    report.CURRENT_PROP = prop
    try:
        module = importlib.import_module(f"props.{prop.lower()}")
    except Exception:
        traceback.print_exc()
        print(f"BROKEN-CHECK property={prop}: cannot import check module", file=sys.stderr)
        return 2

    if args.replay:
        with open(args.replay) as fh:
            rec = json.load(fh)
        part = report.new_part()
        case = rec["case"]
        try:
            if isinstance(case, dict) and "_fn" in case:
                # a shard in which the implementation itself raised: run that shard again
                modname, _, fname = case["_fn"].partition(":")
                fn = getattr(importlib.import_module(modname), fname)
                shard = case["_shard"]
                fn(tuple(shard) if isinstance(shard, list) else shard)
            elif isinstance(case, dict) and case.get("_rerun"):
                print(f"this violation was raised outside a shard: re-run ./check {prop} --tier {case['_rerun']}")
                return 0
            else:
                module.replay(case, part)
        except Exception as exc:
            origin = report.netqasm_origin(exc)
            if origin is None:
                raise
            part["violations"].append(report.implementation_violation(exc, origin, case))
        if part["violations"]:
            for v in part["violations"]:
                print(f"VIOLATION property={prop} replay={args.replay}")
                print(f"  fingerprint={v['fingerprint']}: {v['what']}")
                print(f"  detail={json.dumps(v['detail'])[:2000]}")
            return 1
        print(f"replay of {args.replay}: property held (no violation reproduced)")
        return 0

    # scratch replay files of earlier runs of this property are obsolete
    import glob
    for old in glob.glob(os.path.join(report.REPLAY_DIR, f"{prop}-*.json")):
        try:
            os.remove(old)
        except OSError:
            pass
    ctx = report.Ctx(prop, args.tier, seed, args.jobs, module)
    try:
        module.run(ctx)
    except report.ImplementationRaised:
        pass                      # recorded as a violation; finish() reports it
    except report.CheckBroken as exc:
        print(f"BROKEN-CHECK property={prop}: {exc}", file=sys.stderr)
        return 2
    except Exception as exc:
        origin = report.netqasm_origin(exc)
        if origin is None:
            traceback.print_exc()
            print(f"BROKEN-CHECK property={prop}: explorer crashed", file=sys.stderr)
            return 2
        v = report.implementation_violation(exc, origin, {"_rerun": args.tier})
        report.count(ctx.total, "violation:" + v["fingerprint"])
        ctx.total["violations"].append(v)
        ctx.total["notes"].append("exploration aborted: the implementation raised (see the implementation-raises/* violation)")
    return report.finish(ctx)


if __name__ == "__main__":
    sys.exit(main())
