"""Independent byte-level reference encoder + valuation lattices shared by C01/C02/C16/C17.

`ref_encode_*` never imports netqasm.lang.encoding.  The helpers that *build real
instructions* (`make_instr`) import the repository, of course: they construct the
objects under test.
"""
from __future__ import annotations

import dataclasses
import itertools
from typing import Any, Dict, Iterable, Iterator, List, Sequence, Tuple

from . import wiretable

INT32_MIN = -(2 ** 31)
INT32_MAX = 2 ** 31 - 1


# ------------------------------------------------------------------ reference encoder
def ref_reg(bank: int, index: int) -> bytes:
    assert 0 <= bank < 4 and 0 <= index < 16
    return bytes([bank | (index << 2)])


def ref_int32(v: int) -> bytes:
    assert INT32_MIN <= v <= INT32_MAX
    return (v & 0xFFFFFFFF).to_bytes(4, "little")


def ref_encode_instr(opcode: int, leaf_kinds: Sequence[str], leaves: Sequence[Any]) -> bytes:
    out = bytes([opcode])
    for k, v in zip(leaf_kinds, leaves):
        if k == "reg":
            out += ref_reg(*v)
        elif k == "imm8":
            assert 0 <= v <= 255
            out += bytes([v])
        elif k == "int32":
            out += ref_int32(v)
        else:
            raise AssertionError(k)
    assert len(out) <= 7, (opcode, leaf_kinds)
    return out + bytes(7 - len(out))


def ref_header(version: Tuple[int, int], app_id: int) -> bytes:
    assert 0 <= app_id <= 0xFFFF
    return bytes([version[0], version[1]]) + app_id.to_bytes(2, "little")


# ------------------------------------------------------------------ lattices
def b32() -> List[int]:
    s = {0, -1, INT32_MIN, INT32_MAX}
    for k in range(32):
        for v in (2 ** k, 2 ** k - 1, 2 ** k + 1, -(2 ** k), -(2 ** k) - 1, -(2 ** k) + 1):
            if INT32_MIN <= v <= INT32_MAX:
                s.add(v)
    return sorted(s, key=lambda x: (abs(x), x < 0))


B32 = b32()
ALL_REGS = [(b, i) for b in range(4) for i in range(16)]
RED_REGS = [(b, i) for b in range(4) for i in (0, 15)]
RED_IMM8 = [0, 1, 2, 127, 128, 255]
RED_INT = [0, 1, -1, 2, 255, 256, INT32_MAX, INT32_MIN]
ALL_IMM8 = list(range(256))

FULL = {"reg": ALL_REGS, "imm8": ALL_IMM8, "int32": B32}
REDUCED = {"reg": RED_REGS, "imm8": RED_IMM8, "int32": RED_INT}
LOW = {"reg": (0, 0), "imm8": 0, "int32": 0}
HIGH_REGS = [(0, 1), (1, 2), (2, 3), (3, 4), (2, 15), (1, 9)]
HIGH_IMM8 = [0x5A, 0xA5, 0x3C, 0xC3]
HIGH_INT = [0x01020304, -0x01020304]


def background_high(leaf_kinds: Sequence[str]) -> List[Any]:
    r = iter(HIGH_REGS)
    i8 = iter(HIGH_IMM8)
    i32 = iter(HIGH_INT)
    out = []
    for k in leaf_kinds:
        out.append(next({"reg": r, "imm8": i8, "int32": i32}[k]))
    return out


def background_low(leaf_kinds: Sequence[str]) -> List[Any]:
    return [LOW[k] for k in leaf_kinds]


def walking_ones(leaf_kinds: Sequence[str]) -> Iterator[Tuple[Any, ...]]:
    """Each bit of each field set alone, every other field zero."""
    low = background_low(leaf_kinds)
    for p, k in enumerate(leaf_kinds):
        if k == "reg":
            vals = [(1, 0), (2, 0), (0, 1), (0, 2), (0, 4), (0, 8)]
        elif k == "imm8":
            vals = [1 << b for b in range(8)]
        else:
            vals = [1 << b for b in range(31)] + [INT32_MIN]
        for v in vals:
            c = list(low)
            c[p] = v
            yield tuple(c)


def per_field_lattice(leaf_kinds: Sequence[str]) -> Iterator[Tuple[Any, ...]]:
    """Every value of every field against two backgrounds."""
    for bg in (background_low(leaf_kinds), background_high(leaf_kinds)):
        yield tuple(bg)
        for p, k in enumerate(leaf_kinds):
            for v in FULL[k]:
                c = list(bg)
                c[p] = v
                yield tuple(c)


def pairs_lattice(leaf_kinds: Sequence[str]) -> Iterator[Tuple[Any, ...]]:
    """All pairs of positions over reduced domains (both backgrounds)."""
    n = len(leaf_kinds)
    for bg in (background_low(leaf_kinds), background_high(leaf_kinds)):
        for p, q in itertools.combinations(range(n), 2):
            for v in REDUCED[leaf_kinds[p]]:
                for w in REDUCED[leaf_kinds[q]]:
                    c = list(bg)
                    c[p] = v
                    c[q] = w
                    yield tuple(c)


def product_size(leaf_kinds: Sequence[str], dom: Dict[str, list]) -> int:
    n = 1
    for k in leaf_kinds:
        n *= len(dom[k])
    return n


def full_product(leaf_kinds: Sequence[str], dom: Dict[str, list]) -> Iterator[Tuple[Any, ...]]:
    return itertools.product(*[dom[k] for k in leaf_kinds])


# ------------------------------------------------------------------ real objects
_FLAVOURS: Dict[str, Any] = {}


def flavour(name: str):
    from netqasm.lang.instr import flavour as fl
    if name not in _FLAVOURS:
        _FLAVOURS[name] = {"vanilla": fl.VanillaFlavour, "nv": fl.NVFlavour, "reids": fl.REIDSFlavour}[name]()
    return _FLAVOURS[name]


def live_classes(name: str) -> List[type]:
    """Instruction classes of a flavour as the *live* repository declares them."""
    from netqasm.lang.instr import flavour as fl
    f = flavour(name)
    out = []
    for c in list(fl.CORE_INSTRUCTIONS) + list(f.instrs):
        if c not in out:
            out.append(c)
    return out


def live_operand_kinds(cls: type) -> List[str]:
    """Operand kinds of a live class, from its dataclass fields (for classes the frozen
    table does not know).  8-bit vs 32-bit immediates are told apart by the shape."""
    from netqasm.lang import operand as op
    from netqasm.lang.instr import base
    wide = (base.ImmInstruction, base.RegImmInstruction, base.RegRegImmInstruction)
    kinds = []
    for f in dataclasses.fields(cls)[3:]:
        t = f.type if isinstance(f.type, type) else None
        name = f.type if isinstance(f.type, str) else getattr(f.type, "__name__", str(f.type))
        if "Register" in name:
            kinds.append("reg")
        elif "Immediate" in name:
            kinds.append("int32" if issubclass(cls, wide) else "imm8")
        elif "ArrayEntry" in name:
            kinds.append("entry")
        elif "ArraySlice" in name:
            kinds.append("slice")
        elif "Address" in name:
            kinds.append("addr")
        else:
            raise AssertionError(f"unknown operand type {f.type!r} in {cls}")
    return kinds


def make_operands(kinds: Sequence[str], leaves: Sequence[Any]) -> List[Any]:
    from netqasm.lang.encoding import RegisterName
    from netqasm.lang.operand import Address, ArrayEntry, ArraySlice, Immediate, Register
    it = iter(leaves)

    def reg():
        b, i = next(it)
        return Register(RegisterName(b), i)

    ops = []
    for k in kinds:
        if k == "reg":
            ops.append(reg())
        elif k in ("imm8", "int32"):
            ops.append(Immediate(next(it)))
        elif k == "addr":
            ops.append(Address(next(it)))
        elif k == "entry":
            a = Address(next(it))
            ops.append(ArrayEntry(a, reg()))
        elif k == "slice":
            a = Address(next(it))
            s = reg()
            e = reg()
            ops.append(ArraySlice(a, s, e))
        else:
            raise AssertionError(k)
    return ops


def make_instr(cls: type, kinds: Sequence[str], leaves: Sequence[Any]):
    names = [f.name for f in dataclasses.fields(cls)[3:]]
    ops = make_operands(kinds, leaves)
    assert len(names) == len(ops), (cls, names, kinds)
    return cls(**dict(zip(names, ops)))


def describe(flav: str, mnemonic: str, leaves: Sequence[Any], app_id=0, version=(0, 0)) -> Dict[str, Any]:
    return {"flavour": flav, "mnemonic": mnemonic, "leaves": [list(x) if isinstance(x, tuple) else x for x in leaves],
            "app_id": app_id, "version": list(version)}
