"""Tiny exact state-vector simulator with textbook gate definitions.

Deliberately independent of netqasm.util.quantum_gates and of every `to_matrix`
in the repository: the matrices below are the operators the mnemonics denote.
Qubits are named by arbitrary hashable keys (the harness uses physical qubit ids,
remote halves of EPR pairs use ("remote", n)).
"""
from __future__ import annotations

import cmath
import math
from typing import Dict, Hashable, List, Optional, Sequence, Tuple

import numpy as np

I2 = np.eye(2, dtype=complex)
X = np.array([[0, 1], [1, 0]], dtype=complex)
Y = np.array([[0, -1j], [1j, 0]], dtype=complex)
Z = np.array([[1, 0], [0, -1]], dtype=complex)
H = (X + Z) / math.sqrt(2)
K = (Y + Z) / math.sqrt(2)
S = np.array([[1, 0], [0, 1j]], dtype=complex)
T = np.array([[1, 0], [0, cmath.exp(1j * math.pi / 4)]], dtype=complex)
PAULI = {"x": X, "y": Y, "z": Z}
GATES1 = {"x": X, "y": Y, "z": Z, "h": H, "k": K, "s": S, "t": T}
P0 = np.array([[1, 0], [0, 0]], dtype=complex)
P1 = np.array([[0, 0], [0, 1]], dtype=complex)
CNOT = np.array([[1, 0, 0, 0], [0, 1, 0, 0], [0, 0, 0, 1], [0, 0, 1, 0]], dtype=complex)
CPHASE = np.diag([1, 1, 1, -1]).astype(complex)
SWAP = np.array([[1, 0, 0, 0], [0, 0, 1, 0], [0, 1, 0, 0], [0, 0, 0, 1]], dtype=complex)


def rot(axis: str, theta: float) -> np.ndarray:
    """R_axis(theta) = cos(theta/2) I - i sin(theta/2) P_axis."""
    return math.cos(theta / 2) * I2 - 1j * math.sin(theta / 2) * PAULI[axis]


def crot(axis: str, theta: float) -> np.ndarray:
    """NV controlled rotation: |0><0| (x) R(theta) + |1><1| (x) R(-theta) (control is the first qubit)."""
    return np.kron(P0, rot(axis, theta)) + np.kron(P1, rot(axis, -theta))


def angle(n: int, d: int) -> float:
    return n * math.pi / (2 ** d)


def equal_up_to_phase(a: np.ndarray, b: np.ndarray, atol: float = 1e-9) -> bool:
    a = np.asarray(a, dtype=complex)
    b = np.asarray(b, dtype=complex)
    if a.shape != b.shape:
        return False
    idx = np.unravel_index(np.argmax(np.abs(b)), b.shape)
    if abs(b[idx]) < atol:
        return bool(np.allclose(a, b, atol=atol))
    if abs(a[idx]) < atol:
        return False
    phase = a[idx] / b[idx]
    if abs(abs(phase) - 1) > 1e-6:
        return False
    return bool(np.allclose(a, phase * b, atol=atol))


class QState:
    """Pure state of a growing/shrinking set of named qubits.  Qubit order = self.order
    (first name = most significant bit)."""

    def __init__(self):
        self.order: List[Hashable] = []
        self.vec = np.array([1.0 + 0j])
        self.garbage = 0   # counter for entangled qubits that were freed (kept, renamed)

    # ---- structure -------------------------------------------------------------
    def copy(self) -> "QState":
        q = QState()
        q.order = list(self.order)
        q.vec = self.vec.copy()
        q.garbage = self.garbage
        return q

    def has(self, name) -> bool:
        return name in self.order

    def add(self, name, state: Optional[Sequence[complex]] = None) -> None:
        assert name not in self.order, f"qubit {name!r} already exists"
        s = np.array([1, 0], dtype=complex) if state is None else np.asarray(state, dtype=complex)
        self.vec = np.kron(self.vec, s)
        self.order.append(name)

    def add_pair(self, a, b, bell: str) -> None:
        """Adds two qubits in the Bell state named `bell` (PHI_PLUS, PHI_MINUS, PSI_PLUS, PSI_MINUS).
        Names, not numbers: the link-layer numberings differ between interface versions."""
        self.vec = np.kron(self.vec, BELL[bell])
        self.order.extend([a, b])

    def _tensor(self) -> np.ndarray:
        return self.vec.reshape([2] * len(self.order)) if self.order else self.vec.reshape(())

    def _move_front(self, names: Sequence) -> np.ndarray:
        idx = [self.order.index(n) for n in names]
        rest = [i for i in range(len(self.order)) if i not in idx]
        return np.transpose(self._tensor(), idx + rest), idx, rest

    def apply(self, mat: np.ndarray, *names) -> None:
        k = len(names)
        assert len(set(names)) == k
        t, idx, rest = self._move_front(names)
        shape = t.shape
        t = (np.asarray(mat, dtype=complex) @ t.reshape(2 ** k, -1)).reshape(shape)
        inv = np.argsort(idx + rest)
        self.vec = np.transpose(t, inv).reshape(-1)

    def probabilities(self, name) -> Tuple[float, float]:
        t, _, _ = self._move_front([name])
        t = t.reshape(2, -1)
        p0 = float(np.sum(np.abs(t[0]) ** 2))
        p1 = float(np.sum(np.abs(t[1]) ** 2))
        return p0, p1

    def project(self, name, outcome: int) -> float:
        p = self.probabilities(name)[outcome]
        assert p > 1e-12, "projecting on a zero-probability outcome"
        self.apply(P1 if outcome else P0, name)
        self.vec = self.vec / math.sqrt(p)
        return p

    def is_product(self, name) -> bool:
        t, _, _ = self._move_front([name])
        m = t.reshape(2, -1)
        s = np.linalg.svd(m, compute_uv=False)
        return bool(len(s) < 2 or s[1] < 1e-9)

    def remove(self, name) -> bool:
        """Drops a qubit.  If it is entangled with the rest it is kept as anonymous garbage
        (so the global state stays pure); returns True iff it was really removed."""
        if self.is_product(name):
            t, idx, rest = self._move_front([name])
            m = t.reshape(2, -1)
            row = 0 if np.linalg.norm(m[0]) >= np.linalg.norm(m[1]) else 1
            v = m[row]
            self.vec = v / np.linalg.norm(v)
            self.order = [self.order[i] for i in rest]
            return True
        self.garbage += 1
        self.order[self.order.index(name)] = ("garbage", self.garbage)
        return False

    def reset(self, name) -> None:
        """|psi> -> |0> for a qubit in a product state with the rest."""
        assert self.is_product(name), "reset of an entangled qubit is not modelled"
        i = self.order.index(name)
        self.remove(name)
        self.vec = np.kron(self.vec, np.array([1, 0], dtype=complex))
        self.order.append(name)
        # restore position (not required for semantics, keeps vectors comparable)
        self.permute_to(self.order[:i] + [name] + self.order[i:-1])

    def permute_to(self, order: Sequence) -> None:
        assert sorted(map(repr, order)) == sorted(map(repr, self.order))
        idx = [self.order.index(n) for n in order]
        self.vec = np.transpose(self._tensor(), idx).reshape(-1) if self.order else self.vec
        self.order = list(order)

    # ---- observation ---------------------------------------------------------------
    def vector(self, order: Optional[Sequence] = None) -> np.ndarray:
        if order is None:
            return self.vec.copy()
        c = self.copy()
        c.permute_to(list(order))
        return c.vec

    def reduced(self, names: Sequence) -> np.ndarray:
        t, _, _ = self._move_front(list(names))
        m = t.reshape(2 ** len(names), -1)
        return m @ m.conj().T

    def fidelity_with(self, names: Sequence, target: Sequence[complex]) -> float:
        rho = self.reduced(names)
        v = np.asarray(target, dtype=complex)
        return float(np.real(v.conj() @ rho @ v))

    def key(self, digits: int = 6) -> tuple:
        """Canonical hashable form up to global phase (first non-negligible amplitude real positive)."""
        v = self.vec
        nz = np.flatnonzero(np.abs(v) > 1e-9)
        if len(nz):
            v = v * (abs(v[nz[0]]) / v[nz[0]])
        return (tuple(map(repr, self.order)), tuple(np.round(v.real, digits) + 0.0), tuple(np.round(v.imag, digits) + 0.0))


_r = 1 / math.sqrt(2)
BELL = {
    "PHI_PLUS": np.array([_r, 0, 0, _r], dtype=complex),
    "PHI_MINUS": np.array([_r, 0, 0, -_r], dtype=complex),
    "PSI_PLUS": np.array([0, _r, _r, 0], dtype=complex),
    "PSI_MINUS": np.array([0, _r, -_r, 0], dtype=complex),
}
