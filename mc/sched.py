"""Stateless, deviation-bounded thread-schedule explorer (CHESS style) for the thread sockets.

Real `threading.Thread`s run the real netqasm code.  Exactly one of them runs at a
time: every thread owns a baton (a raw lock used as a binary semaphore) and only the
thread that was handed its baton proceeds.  A running thread reaches a *scheduling
point* (= it can be switched out there, in exploration and in replay) at

  * every `line` trace event (sys.settrace, installed per thread) inside the traced
    files (socket_hub.py, thread_socket/socket.py, broadcast_channel.py);
  * an acquire of the hub lock that is held (the hub's `threading.Lock` is replaced
    per execution by `SchedLock`: the thread becomes *blocked*, i.e. disabled until
    the lock is free - never a real wait).  An acquire of a free lock and a release
    coalesce with the neighbouring line event (nothing shared is touched in between),
    so separate points there would only duplicate schedules;
  * `socket_hub.sleep` (module attribute replaced, once per process, by
    `_sched_sleep`; `socket_hub.timer` is frozen at 0): the thread yields and stays
    disabled until another thread has taken a step - or until nobody else can take
    one (then its timer simply expires and it polls again);
  * the back edge of a sleep-less polling loop (`ThreadSocket.wait`,
    `BroadcastChannelBySockets.recv`; found by parsing the traced sources: every
    `while` whose body never calls `sleep`): one unsuccessful polling round is
    treated exactly like a sleep;
  * its end.

Schedules.  A schedule is a list of deviations `[step, thread]`: "at scheduling
decision number `step` run `thread`"; everywhere else the default policy applies
(continue the running thread if it is enabled, else the next enabled thread in
round-robin order).  A deviation that names a disabled / unknown thread, or a step
that is never reached, is a hard error (`ScheduleError`), never silently repaired.
After the last deviation the alternatives of every later decision are recorded with
the total cost they would have: switching away from an enabled running thread (a
preemption) costs 1, a switch at a blocking point (sleep, poll, held lock, thread end)
and the choice of the starting thread are free.  `explore` runs the alternatives
recursively, layer by layer (cost 0, then 1, 2, ...), so the first counterexample of a
kind has the fewest preemptions.

Two things keep the tree finite and small without losing behaviours:

  * Preemption placement (partial-order reduction).  The hub's shared containers are
    replaced per execution by access-counting subclasses (`CountingSet`, ...), the
    lock and every `recv_callback` / `conn_lost_callback` invocation count as
    accesses too.  A preemption of thread T before a segment (line) that performs no
    such access commutes with that segment, so it is equivalent to the preemption
    one point later; only preemptions placed directly before a segment that touches
    shared state (or ends in a sleep / block / thread end) are explored.
    `Execution(reduce=False)` switches this off; props/c18.py runs that unreduced
    exploration at a lower bound and requires identical observation sets (audit).
  * Fairness with >= 3 threads (Musuvathi & Qadeer, Fair stateless model checking,
    2008): a thread that yields gets lower priority than the threads that were
    enabled during its whole last round and never ran; and picking another successor
    than the round-robin one at a blocking point is charged as one deviation (with
    two threads there is never such a choice, so there the bound is exactly the
    CHESS preemption bound).

Deadlock  = unfinished threads, none enabled, none of them a sleeper.
Livelock  = every unfinished thread is a sleeper/poller that has completed a whole
            polling round at the same place without any write to the shared hub state
            in between (this is how a lost message manifests: the receiver polls for
            ever).
Horizon   = step cap of one execution (reported as a cap, never as coverage).

Determinism: `run_twice` / `explore` replay schedules and compare everything observed
(`Result.key()`); a divergence raises `Nondeterminism` (a broken check, never a
VIOLATION).  The cyclic GC is disabled while exploring and run between executions, and
every execution has its own hub and its own socket subclasses (`SocketWorld`), so no
finaliser of an old socket can run inside, or touch, a later execution.
"""
from __future__ import annotations

import _thread
import ast
import gc
import os
import sys
import threading
from typing import Any, Callable, Dict, List, Optional, Tuple

NEW, RUN, SLEEP, BLOCK, DONE = "new", "run", "sleep", "block", "done"
LINE, END = "line", "end"

WEDGE_TIMEOUT = 60.0


class ScheduleError(Exception):
    """The explorer itself is broken / was asked to replay an impossible schedule."""


class Nondeterminism(ScheduleError):
    """Replaying the same schedule gave a different observation."""


class UnscheduledSleep(ScheduleError):
    """The hub asked for a (real) sleep outside a scheduled thread, e.g. during the harness' final non-blocking drain."""


class _Abort(BaseException):
    """Unwinds a scheduled thread after deadlock / livelock / horizon."""


# ----------------------------------------------------------------------------- traced files
def _traced_files() -> Dict[str, int]:
    import netqasm.sdk.classical_communication.broadcast_channel as bc
    import netqasm.sdk.classical_communication.thread_socket.socket as so
    import netqasm.sdk.classical_communication.thread_socket.socket_hub as hub
    out = {}
    for i, m in enumerate((hub, so, bc)):
        out[m.__file__] = i
    return out


FILE_TAGS = ["socket_hub.py", "thread_socket/socket.py", "broadcast_channel.py"]
_TRACED: Dict[str, int] = {}
_POLL_HEADS: Dict[Tuple[int, str], frozenset] = {}


def _find_poll_heads(filename: str, fidx: int) -> None:
    """Every `while` loop is a candidate polling loop; its back-edge target line is recorded under (file index, qualified
    function name).  Whether a round of it was a *sleep-less* polling round is decided at run time (the thread came back
    to the loop head without having slept since its last visit), so helpers that sleep on the loop's behalf, and calls
    that only sleep for some arguments (recv(block=False) never does), need no static analysis."""
    with open(filename) as fh:
        tree = ast.parse(fh.read())

    def visit(node, qual):
        for ch in ast.iter_child_nodes(node):
            if isinstance(ch, ast.ClassDef):
                visit(ch, qual + [ch.name])
            elif isinstance(ch, (ast.FunctionDef, ast.AsyncFunctionDef)):
                q = qual + [ch.name]
                heads = set()
                for n in ast.walk(ch):
                    if isinstance(n, ast.While):
                        heads.add(n.lineno)          # 3.12: the back edge carries the line of the `while`, also for `while True`
                if heads:
                    _POLL_HEADS[(fidx, ".".join(q))] = frozenset(heads)
                visit(ch, q + ["<locals>"])

    visit(tree, [])


def init_tracing() -> None:
    if _TRACED:
        return
    files = _traced_files()
    for fn, idx in files.items():
        _find_poll_heads(fn, idx)
    _TRACED.update(files)
    # installed once per process and never undone: the hub can neither really sleep nor look at the clock any more, also
    # not after an execution (the harness' final drain) or in a late finaliser
    import netqasm.sdk.classical_communication.thread_socket.socket_hub as hubmod
    if not callable(getattr(hubmod, "sleep", None)) or not callable(getattr(hubmod, "timer", None)):
        raise ScheduleError("socket_hub.sleep / socket_hub.timer are gone: the sleep seam moved")
    hubmod.sleep = _sched_sleep
    hubmod.timer = _frozen_timer


def poll_loops() -> Dict[str, List[int]]:
    init_tracing()
    return {f"{FILE_TAGS[f]}:{q}": sorted(h) for (f, q), h in sorted(_POLL_HEADS.items())}


# ----------------------------------------------------------------------------- scheduler-aware lock and sleep
_CURRENT: Optional["Execution"] = None


class SchedLock:
    """Replacement of the hub's threading.Lock: an acquire of a held lock disables the thread."""

    def __init__(self, ex: "Execution"):
        self.ex = ex
        self.owner: Any = None
        self.acquisitions = 0

    def acquire(self, blocking: bool = True, timeout: float = -1) -> bool:
        ex = self.ex
        if ex.finished:                       # final drain by the harness / late finalisers: single-threaded
            self.owner = "post"
            return True
        me = ex.by_ident.get(_thread.get_ident())
        if me is None:
            if self.owner is not None:
                raise ScheduleError("an unscheduled thread would block on the hub lock")
            self.owner = "unscheduled"
            return True
        while self.owner is not None:
            if ex.aborting:
                raise _Abort()
            if not blocking:
                return False
            ex._point(me, BLOCK, self)
        self.owner = me
        self.acquisitions += 1
        ex.acc += 1
        return True

    def release(self) -> None:
        if self.owner is None:
            raise RuntimeError("release unlocked lock")
        self.owner = None
        self.ex.acc += 1

    def locked(self) -> bool:
        return self.owner is not None

    def __enter__(self):
        self.acquire()
        return self

    def __exit__(self, *a):
        self.release()


def _sched_sleep(_secs: float = 0.0) -> None:
    ex = _CURRENT
    me = ex.by_ident.get(_thread.get_ident()) if ex is not None else None
    if me is None or ex.finished:
        raise UnscheduledSleep("sleep() called outside a scheduled thread (a real wait is never allowed)")
    ex._point(me, SLEEP, None)


def _frozen_timer() -> float:
    return 0.0


# ----------------------------------------------------------------------------- access-counting shared containers
_SKIP = {"__new__", "__init__", "__class__", "__getattribute__", "__setattr__", "__delattr__", "__init_subclass__",
         "__subclasshook__", "__reduce__", "__reduce_ex__", "__sizeof__", "__dir__", "__hash__", "__class_getitem__",
         "__doc__", "__getstate__", "__missing__", "__copy__"}


def _touch():
    ex = _CURRENT
    if ex is not None:
        ex.acc += 1


def _counting(base, extra=None):
    """Subclass of a builtin container whose every content access bumps the access counter of the current execution
    (used to tell segments that touch shared hub state from purely thread-local ones)."""
    ns: Dict[str, Any] = {}
    for n in dir(base):
        if n in _SKIP:
            continue
        f = getattr(base, n)
        if not callable(f):
            continue

        def mk(f):
            def m(self, *a, **k):
                ex = _CURRENT
                if ex is not None:
                    ex.acc += 1
                return f(self, *a, **k)
            m.__name__ = getattr(f, "__name__", "m")
            return m
        ns[n] = mk(f)
    if extra:
        ns.update(extra)
    return type("Counting" + base.__name__.capitalize(), (base,), ns)


import collections

_CONTAINER_BASES = (set, list, dict, collections.deque)
_COUNTING_TYPES: Dict[Any, type] = {}


def _base_of(v) -> Optional[type]:
    """the plain container type (set / list / dict / deque) an object is an instance of, None for anything else"""
    for b in _CONTAINER_BASES:
        if isinstance(v, b):
            return b
    return None


def counting_type(base: type) -> type:
    if base not in _COUNTING_TYPES:
        _COUNTING_TYPES[base] = _counting(base)
    return _COUNTING_TYPES[base]


def _wrap_value(v):
    """containers stored inside an instrumented dict (message queues) are instrumented too"""
    b = _base_of(v)
    if b is None or type(v).__name__.startswith("Counting"):
        return v
    if b is dict:
        return _counting_dict_like(v)
    if b is collections.deque:
        return counting_type(b)(v, v.maxlen)
    return counting_type(b)(v)


def _counting_dict_like(orig: dict):
    """counting replacement of a dict or defaultdict: values that are containers are wrapped when stored or created"""
    factory = getattr(orig, "default_factory", None)

    def missing(self, key):
        if factory is None:
            raise KeyError(key)
        v = _wrap_value(factory())
        dict.__setitem__(self, key, v)
        return v

    def setitem(self, key, value):
        _touch()
        dict.__setitem__(self, key, _wrap_value(value))

    def setdefault(self, key, default=None):
        _touch()
        if not dict.__contains__(self, key):
            dict.__setitem__(self, key, _wrap_value(default))
        return dict.__getitem__(self, key)

    key = ("dict", factory)
    if key not in _COUNTING_TYPES:
        _COUNTING_TYPES[key] = _counting(dict, {"__missing__": missing, "__setitem__": setitem, "setdefault": setdefault})
    out = _COUNTING_TYPES[key]()
    for k, v in orig.items():
        dict.__setitem__(out, k, _wrap_value(v))
    return out


CountingList = counting_type(list)


def _plain_items(v):
    """contents of an instrumented (or plain) container without bumping the access counter"""
    b = _base_of(v)
    if b is dict:
        return list(dict.items(v))
    return list(b.__iter__(v))

CALLBACK_NAMES = frozenset(["recv_callback", "conn_lost_callback"])


# ----------------------------------------------------------------------------- one execution
class _T:
    __slots__ = ("idx", "name", "body", "baton", "status", "lock", "sleep_mark", "pos", "log", "nsleeps", "npolls",
                 "last_sleep_seq", "last_sleep_pos", "clean", "thread", "gtrace", "op", "P", "E", "S")

    def __init__(self, idx, name, body):
        self.idx = idx
        self.name = name
        self.body = body
        self.baton = _thread.allocate_lock()
        self.baton.acquire()
        self.status = NEW
        self.lock = None
        self.sleep_mark = -1
        self.pos = (-1, 0)
        self.log: List[Any] = []
        self.nsleeps = 0
        self.npolls = 0
        self.last_sleep_seq = -1
        self.last_sleep_pos = None
        self.clean = False
        self.thread = None
        self.gtrace = None
        self.op = None
        self.P: set = set()      # fair scheduling (Musuvathi/Qadeer 2008): threads that have priority over this one
        self.E: set = set()      # threads continuously enabled since this thread's last yield
        self.S: set = set()      # threads scheduled since this thread's last yield


class Result:
    __slots__ = ("outcome", "detail", "logs", "steps", "preemptions", "alts", "switches", "final", "nsleeps", "npolls",
                 "lock_blocks", "positions", "pruned", "cost", "unfair_pruned")

    def key(self):
        """What must be identical when the same schedule is replayed."""
        return (self.outcome, self.detail, self.logs, self.steps, self.preemptions, self.cost, self.alts, self.switches,
                self.final)


class Execution:
    def __init__(self, devs, horizon: int, fingerprint: Optional[Callable[[], Any]] = None,
                 states: Optional[set] = None, trace: bool = False, reduce: bool = True):
        self.devs = [(int(s), int(t)) for s, t in devs]
        for a, b in zip(self.devs, self.devs[1:]):
            if not a[0] < b[0]:
                raise ScheduleError(f"deviation steps must increase strictly: {self.devs}")
        self.dev_i = 0
        self.last_dev_step = self.devs[-1][0] if self.devs else -1
        self.horizon = horizon
        self.fingerprint = fingerprint
        self.states = states
        self.trace = trace
        self.threads: List[_T] = []
        self.by_ident: Dict[int, _T] = {}
        self.step = 0
        self.progress = 0
        self.preemptions = 0
        self.alts: List[Tuple[int, int, int]] = []
        self.switches: List[Any] = []
        self.outcome = "ok"
        self.detail: Any = None
        self.aborting = False
        self.finished = False
        self.main_baton = _thread.allocate_lock()
        self.main_baton.acquire()
        self.write_seq = 0
        self.last_fp: Any = None
        self.lock_blocks = 0
        self.error: Optional[BaseException] = None
        self.positions: List[Any] = []
        self.fp_acc = -1
        self.acc = 0                    # accesses to shared containers / lock / callbacks so far
        self.reduce = reduce            # prune preemptions placed before purely thread-local segments
        self.pending: List[Tuple[int, int, int]] = []
        self.pending_acc = 0
        self.pending_owner: Optional[_T] = None
        self.pruned = 0
        self.fair = False
        self.unfair_pruned = 0
        self.free_devs = 0

    # ---- setup -------------------------------------------------------------------
    def spawn(self, name: str, body: Callable[["_T"], None]) -> _T:
        t = _T(len(self.threads), name, body)
        t.gtrace = self._make_tracer(t)
        self.threads.append(t)
        return t

    def now(self) -> int:
        """Logical clock for the oracles (number of segments executed so far)."""
        return self.progress

    # ---- tracing -----------------------------------------------------------------
    def _make_tracer(self, me: _T):
        traced = _TRACED
        point = self._point
        heads_of = _POLL_HEADS

        def ltrace(frame, event, arg):
            if event == "line":
                me.pos = (traced[frame.f_code.co_filename], frame.f_lineno)
                point(me, LINE, None)
            return ltrace

        def make_poll(fidx, heads):
            prev = [0]
            last: Dict[int, int] = {}        # loop head -> number of sleeps of this thread at its last visit (this frame)

            def ptrace(frame, event, arg):
                if event == "line":
                    ln = frame.f_lineno
                    me.pos = (fidx, ln)
                    if ln in heads:
                        if prev[0] >= ln and last.get(ln) == me.nsleeps:
                            me.npolls += 1
                            point(me, SLEEP, None)       # one whole round without a sleep: an unsuccessful polling round
                        else:
                            point(me, LINE, None)
                        last[ln] = me.nsleeps
                    else:
                        point(me, LINE, None)
                    prev[0] = ln
                return ptrace
            return ptrace

        def gtrace(frame, event, arg):
            code = frame.f_code
            if code.co_name in CALLBACK_NAMES:
                self.acc += 1            # runs on behalf of another endpoint: never thread-local
            fidx = traced.get(code.co_filename)
            if fidx is None:
                return None
            heads = heads_of.get((fidx, code.co_qualname))
            if heads is not None:
                return make_poll(fidx, heads)
            return ltrace

        return gtrace

    # ---- the scheduler -------------------------------------------------------------
    def _enabled(self, t: _T) -> bool:
        st = t.status
        if st is RUN or st is NEW:
            return True
        if st is SLEEP:
            return self.progress > t.sleep_mark
        if st is BLOCK:
            return t.lock.owner is None
        return False

    def _point(self, me: Optional[_T], kind: str, arg: Any) -> None:
        if self.aborting:
            if kind is END:
                self._pass_abort(me)
                return
            sys.settrace(None)
            raise _Abort()
        try:
            self._point2(me, kind, arg)
        except (_Abort, ScheduleError):
            raise
        except BaseException as exc:     # a bug of the explorer must not look like netqasm behaviour
            self._broken(me, exc)

    def _broken(self, me, exc):
        self.error = exc
        self.outcome = "broken"
        self.aborting = True
        if me is None:
            raise ScheduleError(f"explorer crashed: {exc!r}") from exc
        if me.status is DONE:
            self._pass_abort(me)
            return
        sys.settrace(None)
        raise _Abort()

    def _point2(self, me, kind, arg):
        if me is not None:
            self.progress += 1
            if kind is LINE:
                me.status = RUN
            elif kind is SLEEP:
                me.status = SLEEP
                me.sleep_mark = self.progress
                me.nsleeps += 1
            elif kind is BLOCK:
                me.status = BLOCK
                me.lock = arg
                self.lock_blocks += 1
            else:
                me.status = DONE
        step = self.step
        self.step = step + 1
        threads = self.threads
        if self.pending:
            # alternatives "preempt `me` before the segment it has just executed": only kept if that segment touched shared
            # state (or ended in a sleep / block / thread end); before a purely local segment the preemption commutes with
            # it and is explored one point later
            if me is self.pending_owner and kind is LINE and self.acc == self.pending_acc:
                self.pruned += len(self.pending)
            else:
                self.alts.extend(self.pending)
            self.pending = []
        if self.fingerprint is not None:
            # the shared containers can only change through counted accesses: recompute only after one
            if self.acc != self.fp_acc or self.last_fp is None:
                acc0 = self.acc
                fp = self.fingerprint()
                self.acc = self.fp_acc = acc0
                if fp != self.last_fp:
                    self.last_fp = fp
                    self.write_seq += 1
            else:
                fp = self.last_fp
            if self.states is not None:
                self.states.add(hash((tuple([(t.pos, t.status) for t in threads]), fp)))
        if kind is SLEEP:
            me.clean = (me.last_sleep_seq == self.write_seq and me.last_sleep_pos == me.pos)
            me.last_sleep_seq = self.write_seq
            me.last_sleep_pos = me.pos
        if step >= self.horizon:
            self._abort(me, "horizon", {"steps": step})
            return
        progress = self.progress
        enabled = []
        for t in threads:
            st = t.status
            if (st is RUN or st is NEW or (st is SLEEP and progress > t.sleep_mark)
                    or (st is BLOCK and t.lock.owner is None)):
                enabled.append(t)
        if not enabled:
            unfinished = [t for t in threads if t.status is not DONE]
            if not unfinished:
                self.finished = True
                self.main_baton.release()
                return
            sleepers = [t for t in unfinished if t.status is SLEEP]
            if not sleepers:
                self._abort(me, "deadlock", self._describe(unfinished))
                return
            # nobody else can take a step: the sleepers' timers simply expire and they poll again
            enabled = sleepers
        if kind is SLEEP:
            # livelock: every unfinished thread is a sleeper/poller that has completed a whole polling round at the same
            # place without any write to the shared state in between (or is blocked on a lock one of them holds)
            unfinished = [t for t in threads if t.status is not DONE]
            if all((t.status is SLEEP and t.clean and t.last_sleep_seq == self.write_seq)
                   or (t.status is BLOCK and t.lock.owner is not None) for t in unfinished):
                self._abort(me, "deadlock" if any(t.status is BLOCK for t in unfinished) else "livelock",
                            self._describe(unfinished))
                return
        me_enabled = me is not None and me.status is RUN
        if self.fair:
            ens = {t.idx for t in enabled}
            for u in threads:
                u.E &= ens
            if kind is SLEEP:
                # `me` yielded: whoever was enabled during its whole last round and never got to run goes first from now on
                me.P |= (me.E - me.S)
                me.P.discard(me.idx)
                me.E = set(ens)
                me.S = set()
            allowed = [t for t in enabled if t is me and me_enabled or not (t.P & ens)]
            if allowed:
                if len(allowed) < len(enabled):
                    self.unfair_pruned += len(enabled) - len(allowed)
                enabled = allowed
        if me_enabled:
            default = me
        else:                      # fair default: next enabled thread in cyclic order after the one that just yielded
            base = me.idx if me is not None else -1
            n = len(threads)
            default = min(enabled, key=lambda t: (t.idx - base - 1) % n)
        nxt = default
        if self.dev_i < len(self.devs) and self.devs[self.dev_i][0] == step:
            tid = self.devs[self.dev_i][1]
            self.dev_i += 1
            cand = [t for t in enabled if t.idx == tid]
            if not cand:
                self.outcome = "broken"
                self.aborting = True
                self.error = ScheduleError(f"deviation [{step}, {tid}] names a thread that is not enabled at that step "
                                           f"(enabled: {[t.idx for t in enabled]})")
                if me is None:
                    raise self.error
                if me.status is DONE:
                    self._pass_abort(me)
                    return
                sys.settrace(None)
                raise _Abort()
            nxt = cand[0]
        elif step > self.last_dev_step and len(enabled) > 1:
            # cost of an alternative: a preemption costs 1; a switch at a blocking point / thread end is free, except
            # that with three or more threads picking another successor than the fair round-robin one is charged as one
            # deviation as well (otherwise the zero-cost tree alone is exponential in the number of polling rounds);
            # the choice of the thread that starts is always free
            cost = self.preemptions + self.free_devs + (1 if (me_enabled or (self.fair and me is not None)) else 0)
            if me_enabled and self.reduce:
                self.pending = [(step, t.idx, cost) for t in enabled if t is not default]
                self.pending_acc = self.acc
                self.pending_owner = me
            else:
                for t in enabled:
                    if t is not default:
                        self.alts.append((step, t.idx, cost))
        if self.fair:
            i = nxt.idx
            for u in threads:
                u.P.discard(i)
                u.S.add(i)
        if nxt is not me:
            if me_enabled:
                self.preemptions += 1
            elif self.fair and me is not None and nxt is not default:
                self.free_devs += 1
            if True:
                self.switches.append((step, me.idx if me is not None else -1, nxt.idx, 1 if me_enabled else 0,
                                      (me.pos, me.status) if me is not None else None))
        self._switch(me, nxt, kind)

    def _switch(self, me, nxt, kind):
        if nxt.status is not NEW:
            nxt.status = RUN
        if nxt is me:
            return
        nxt.baton.release()
        if me is None or kind is END:
            return
        me.baton.acquire()
        if self.aborting:
            sys.settrace(None)
            raise _Abort()

    def _describe(self, unfinished):
        return [[t.name, t.status, FILE_TAGS[t.pos[0]] if t.pos[0] >= 0 else "-", t.pos[1], t.op] for t in unfinished]

    def _abort(self, me, outcome, detail):
        self.outcome = outcome
        self.detail = detail
        self.aborting = True
        if me is None:
            self._pass_abort(None)
            return
        if me.status is DONE:
            self._pass_abort(me)
            return
        sys.settrace(None)
        raise _Abort()

    def _pass_abort(self, me):
        if me is not None:
            me.status = DONE
        for t in self.threads:
            if t.status is not DONE:
                t.status = DONE          # it will only unwind from now on
                t.baton.release()
                return
        self.finished = True
        self.main_baton.release()

    # ---- thread body wrapper ---------------------------------------------------------
    def _thread_main(self, t: _T) -> None:
        t.baton.acquire()
        self.by_ident[_thread.get_ident()] = t
        if not self.aborting:
            t.status = RUN
            sys.settrace(t.gtrace)
            try:
                t.body(t)
            except _Abort:
                pass
            except ScheduleError as exc:
                self.error = self.error or exc
                self.outcome = "broken"
                self.aborting = True
            except BaseException as exc:   # an exception escaping the scripted body is an observation
                t.log.append(("raised", type(exc).__name__, str(exc)[:200]))
            finally:
                sys.settrace(None)
        try:
            self._point(t, END, None)
        except BaseException as exc:       # never leave the others waiting for ever
            self.error = self.error or exc
            self.outcome = "broken"
            self.aborting = True
            self._pass_abort(t)

    def run(self) -> Result:
        global _CURRENT
        if not self.threads:
            raise ScheduleError("no threads")
        init_tracing()
        self.fair = len(self.threads) >= 3      # with two threads the sleep rule alone is already fair
        for t in self.threads:
            t.E = set(range(len(self.threads)))
        saved = _CURRENT
        _CURRENT = self
        try:
            for t in self.threads:
                t.thread = threading.Thread(target=self._thread_main, args=(t,), daemon=True, name=f"sched-{t.name}")
                t.thread.start()
            self._point(None, LINE, None)
            if not self.main_baton.acquire(timeout=WEDGE_TIMEOUT):
                raise ScheduleError(f"explorer wedged: no thread finished within {WEDGE_TIMEOUT}s "
                                    f"(states {[(t.name, t.status) for t in self.threads]})")
            for t in self.threads:
                t.thread.join(WEDGE_TIMEOUT)
                if t.thread.is_alive():
                    raise ScheduleError(f"thread {t.name} did not terminate")
        finally:
            _CURRENT = saved
        if self.error is not None or self.outcome == "broken":
            if isinstance(self.error, ScheduleError):
                raise self.error
            raise ScheduleError(f"explorer crashed: {self.error!r}") from self.error
        if self.outcome == "ok" and self.dev_i != len(self.devs):
            raise ScheduleError(f"deviation {self.devs[self.dev_i]} was never reached (execution has {self.step} decisions)")
        r = Result()
        r.outcome = self.outcome
        r.detail = self.detail
        r.logs = {t.name: list(t.log) for t in self.threads}
        r.steps = self.step
        r.preemptions = self.preemptions
        r.alts = list(self.alts)
        r.switches = list(self.switches)
        r.final = None
        r.nsleeps = sum(t.nsleeps for t in self.threads)
        r.npolls = sum(t.npolls for t in self.threads)
        r.lock_blocks = self.lock_blocks
        r.positions = None
        r.pruned = self.pruned
        r.cost = self.preemptions + self.free_devs
        r.unfair_pruned = self.unfair_pruned
        return r


# ----------------------------------------------------------------------------- the netqasm world of one execution
class SocketWorld:
    """Fresh `_SocketHub` + own socket / broadcast-channel subclasses bound to it (never the module-level hub)."""

    def __init__(self, ex: Execution):
        from netqasm.sdk.classical_communication.thread_socket.broadcast_channel import ThreadBroadcastChannel
        from netqasm.sdk.classical_communication.thread_socket.socket import StorageThreadSocket, ThreadSocket
        from netqasm.sdk.classical_communication.thread_socket.socket_hub import _SocketHub
        ThreadSocket._COMM_LOGGERS.clear()
        self.ex = ex
        hub = _SocketHub()
        # every lock and every container the hub owns is replaced, whatever it is called: the lock by the scheduler's lock,
        # containers by access-counting subclasses of their own type (set / list / dict / defaultdict / deque)
        lock_types = (type(threading.Lock()), type(threading.RLock()))
        self.hub_attrs: Dict[str, Any] = {}
        nlocks = 0
        for attr, cur in sorted(vars(hub).items()):
            if isinstance(cur, lock_types):
                setattr(hub, attr, SchedLock(ex))
                nlocks += 1
            elif _base_of(cur) is not None:
                if len(cur):
                    raise ScheduleError(f"hub.{attr} is not empty after construction: the seam moved")
                setattr(hub, attr, _wrap_value(cur))
            else:
                continue
            self.hub_attrs[attr] = getattr(hub, attr)
        if nlocks != 1:
            raise ScheduleError(f"the hub owns {nlocks} locks, the harness models exactly one: the lock seam moved")
        if "_messages" not in self.hub_attrs or _base_of(self.hub_attrs["_messages"]) is not dict:
            raise ScheduleError("hub._messages (socket key -> queue of undelivered messages) is gone: the oracle's seam moved")
        self.hub = hub
        ns = {"_SOCKET_HUB": hub, "_COMM_LOGGERS": {}}
        self.Socket = type("SchedThreadSocket", (ThreadSocket,), dict(ns))
        sns = dict(ns)      # (deliveries through recv_callback count as shared accesses by their name, see gtrace)
        self.StorageSocket = type("SchedStorageThreadSocket", (StorageThreadSocket,), sns)
        self.Broadcast = type("SchedBroadcastChannel", (ThreadBroadcastChannel,), {"_socket_class": self.Socket})
        self.keep: List[Any] = []
        ex.fingerprint = self.fingerprint

    def fingerprint(self):
        h = self.hub
        out = []
        for a, v in self.hub_attrs.items():
            if getattr(h, a) is not v:
                raise ScheduleError(f"hub.{a} was rebound during an execution: shared accesses are no longer observed")
            b = _base_of(v)
            if b is None:                    # the lock
                continue
            if b is dict:
                rows = []
                for k, x in dict.items(v):
                    if _base_of(x) is not None:
                        items = _plain_items(x)
                        if items:            # an empty queue and a missing queue are the same state
                            rows.append((repr(k), tuple(map(str, items))))
                    else:
                        rows.append((repr(k), None))     # e.g. callbacks: presence is what matters
                out.append((a, tuple(sorted(rows))))
            elif b is set:
                out.append((a, frozenset(map(repr, set.__iter__(v)))))
            else:
                out.append((a, tuple(map(str, _plain_items(v)))))
        return tuple(out)

    def queued(self):
        return {k: [x for x in _plain_items(v)] for k, v in dict.items(self.hub._messages)
                if _base_of(v) is not None and _plain_items(v)}

    def teardown(self):
        self.keep.clear()


# ----------------------------------------------------------------------------- exploration
class Stats:
    def __init__(self):
        self.executions = 0
        self.transitions = 0
        self.by_preemptions: Dict[int, int] = {}
        self.replayed = 0
        self.max_steps = 0
        self.horizon_hits = 0
        self.states: set = set()
        self.nsleeps = 0
        self.npolls = 0
        self.lock_blocks = 0
        self.deferred_beyond_bound = 0


_unraisable_installed = False


def install_quiet_abort() -> None:
    """Exceptions of type _Abort that surface inside a __del__ while a thread unwinds are expected: keep stderr clean."""
    global _unraisable_installed
    if _unraisable_installed:
        return
    _unraisable_installed = True
    prev = sys.unraisablehook

    def hook(u):
        if u.exc_type is _Abort:
            return
        prev(u)
    sys.unraisablehook = hook


def run_twice(run_one: Callable[[List], Result], devs) -> Result:
    a = run_one(devs)
    b = run_one(devs)
    if a.key() != b.key():
        raise Nondeterminism(f"schedule {devs} is not replay-deterministic:\n first  {a.key()!r}\n second {b.key()!r}")
    return a


def explore(run_one: Callable[[List], Result], roots: List[Tuple[List, int]], max_bound: int,
            judge: Callable[[Result, List], bool], stats: Stats, det_first: int = 20, gc_every: int = 256,
            overflow: Optional[List[Tuple[List, int]]] = None) -> None:
    """roots: (deviation list, number of preemptions of that schedule).  `judge(result, devs)` returns True when the
    execution is a counterexample (it is then replayed and must reproduce identically).  Layered by preemptions."""
    install_quiet_abort()
    gc_was = gc.isenabled()
    gc.disable()            # no GC-timed finaliser may run inside a scheduled thread
    try:
        layers: Dict[int, List[List]] = {}
        for devs, cost in roots:
            layers.setdefault(cost, []).append(list(devs))
        for bound in range(0, max_bound + 1):
            stack = layers.pop(bound, [])
            stack.reverse()
            while stack:
                devs = stack.pop()
                if stats.executions % gc_every == gc_every - 1:
                    gc.collect()
                if stats.executions < det_first:
                    res = run_twice(run_one, devs)
                    stats.replayed += 1
                else:
                    res = run_one(devs)
                stats.executions += 1
                stats.transitions += res.steps
                stats.by_preemptions[res.cost] = stats.by_preemptions.get(res.cost, 0) + 1
                stats.max_steps = max(stats.max_steps, res.steps)
                stats.nsleeps += res.nsleeps
                stats.npolls += res.npolls
                stats.lock_blocks += res.lock_blocks
                if res.outcome == "horizon":
                    stats.horizon_hits += 1
                if res.cost != bound:
                    raise ScheduleError(f"schedule {devs} was filed under cost {bound} but has cost {res.cost}")
                if judge(res, devs):
                    again = run_one(devs)
                    stats.replayed += 1
                    if again.key() != res.key():
                        raise Nondeterminism(f"counterexample schedule {devs} is not replay-deterministic:\n first  "
                                             f"{res.key()!r}\n second {again.key()!r}")
                children_now = []
                for step, tid, cost in res.alts:
                    child = devs + [[step, tid]]
                    if cost <= bound:
                        children_now.append(child)
                    elif cost <= max_bound:
                        layers.setdefault(cost, []).append(child)
                    else:
                        stats.deferred_beyond_bound += 1
                        if overflow is not None:
                            overflow.append((child, cost))
                children_now.reverse()
                stack.extend(children_now)
    finally:
        if gc_was:
            gc.enable()
        gc.collect()


def first_level(run_one: Callable[[List], Result]) -> Tuple[Result, List[Tuple[List, int]]]:
    """Runs the default schedule (no deviation) and returns it with its children = the first-level choice prefixes."""
    res = run_twice(run_one, [])
    return res, [([[s, t]], c) for s, t, c in res.alts]


def _src(f: int, ln: int) -> str:
    import linecache
    for fn, idx in _TRACED.items():
        if idx == f:
            return linecache.getline(fn, ln).strip()
    return ""


def narrative(res: Result) -> List[str]:
    """Human-readable list of the context switches of one execution (a position is the line the thread executes NEXT)."""
    out = []
    for step, frm, to, cost, where in res.switches:
        if frm < 0:
            out.append(f"decision {step}: start with thread #{to}")
        else:
            (f, ln), st = where
            tag = f"{FILE_TAGS[f]}:{ln} `{_src(f, ln)}`" if f >= 0 else "its first traced line"
            if cost:
                out.append(f"decision {step}: thread #{frm} is PREEMPTED before executing {tag} -> thread #{to}")
            else:
                kind = {"sleep": "yields (sleep / failed polling round)", "block": "blocks on the hub lock",
                        "done": "ends"}.get(st, st)
                out.append(f"decision {step}: thread #{frm} {kind} (last line {tag}) -> thread #{to}")
    return out
