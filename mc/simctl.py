"""SimExecutor / SimController / SimConnection / ScriptedStack.

The real `Executor`, `QNodeController` and `BaseNetQASMConnection` subclassed ONLY at
their abstract / no-op hooks (DESIGN.md 2.1).  Quantum hooks act on an exact state
vector (mc.qsim) indexed by physical qubit id and fault — like real back-ends — when
a gate addresses an unallocated virtual qubit (through the executor's own
`_get_position`).  Every instruction passes a step horizon raised as BaseException.
"""
from __future__ import annotations

from types import GeneratorType
from typing import Any, Callable, Dict, List, Optional, Tuple

from netqasm.backend.executor import Executor
from netqasm.backend.messages import deserialize_host_msg
from netqasm.backend.network_stack import BaseNetworkStack
from netqasm.backend.qnodeos import QNodeController
from netqasm.lang import instr as ins
from netqasm.sdk.connection import BaseNetQASMConnection
from netqasm.sdk.network import NetworkInfo

from . import qsim


def register_items(group):
    """(index, value) of every register of a RegisterGroup through its public protocol (len / indexing): how the bank stores
    its values (dict, list, ...) is none of the harness's business"""
    return [(i, group[i]) for i in range(len(group))]


def meas_registers_in_use(mm) -> list:
    """names of the M registers the SDK's memory manager marks as in use, whatever the bookkeeping structure is
    (a register -> bool dict, or a set / list of the registers in use)"""
    used = mm._used_meas_registers
    if isinstance(used, dict):
        return sorted(str(r) for r, u in used.items() if u)
    return sorted(str(r) for r in used)


def _classical_snapshot(ex, app_id: int):
    return ex._old_classical_snapshot(app_id)


class Horizon(BaseException):
    """Step bound reached (passes through the executor's `except Exception`)."""


class Blocked(BaseException):
    """A wait instruction can make no progress and nothing is deliverable."""


class HarnessLimit(BaseException):
    """The harness cannot model this (e.g. init of an entangled qubit)."""


NODE_IDS = {"alice": 0, "bob": 1, "charlie": 2}                       # application (role) name -> id of the node it runs on
NODE_NAMES = {"alice": "node-a", "bob": "node-b", "charlie": "node-c"}    # application name -> name of that node
# The network also has nodes whose NAMES coincide with role names of applications running elsewhere (as in deployments where
# roles are assigned to nodes freely): looking a role name up as a node name gives a different node.
_NODES_BY_NAME = {"node-a": 0, "node-b": 1, "node-c": 2, "alice": 10, "bob": 11, "charlie": 12}


def node_name_of(app_name: str) -> str:
    return NODE_NAMES[app_name]


class SimNetworkInfo(NetworkInfo):
    @classmethod
    def _get_node_id(cls, node_name: str) -> int:
        return _NODES_BY_NAME[node_name]

    @classmethod
    def _get_node_name(cls, node_id: int) -> str:
        # an id no node has is answered, not refused: which name the SDK then reports is for the check to judge
        return {v: k for k, v in _NODES_BY_NAME.items()}.get(int(node_id), f"<no node with id {int(node_id)}>")

    @classmethod
    def get_node_id_for_app(cls, app_name: str) -> int:
        return NODE_IDS[app_name]

    @classmethod
    def get_node_name_for_app(cls, app_name: str) -> str:
        return NODE_NAMES[app_name]


class ScriptedStack(BaseNetworkStack):
    """Records requests; the harness/explorer decides when responses are delivered."""

    PURPOSE_OFFSET = 0

    def __init__(self):
        self.requests: List[Any] = []        # LinkLayerCreate as put() by the executor
        self.recvs: List[Tuple] = []         # (remote_node_id, purpose_id, num_pairs, subroutine_id) from recv_epr
        self.sockets: List[Tuple] = []
        self.on_request: Optional[Callable] = None

    def put(self, request) -> None:
        self.requests.append(request)
        if self.on_request is not None:
            self.on_request("create", request)

    def note_recv(self, remote_node_id: int, purpose_id: int, num_pairs: int) -> None:
        self.recvs.append((remote_node_id, purpose_id, num_pairs))
        if self.on_request is not None:
            self.on_request("recv", (remote_node_id, purpose_id, num_pairs))

    def setup_epr_socket(self, epr_socket_id, remote_node_id, remote_epr_socket_id, timeout=1.0):
        self.sockets.append((epr_socket_id, remote_node_id, remote_epr_socket_id))
        return None

    def get_purpose_id(self, remote_node_id: int, epr_socket_id: int) -> int:
        return epr_socket_id + self.PURPOSE_OFFSET


def first_possible(p0: float, p1: float) -> int:
    return 0 if p0 > 1e-9 else 1


class SimExecutor(Executor):
    def __init__(self, name=None, instr_log_dir=None, node_id: int = 0, horizon: int = 2000, **kwargs):
        super().__init__(name=name, instr_log_dir=instr_log_dir)
        self._node_id = node_id
        self.qs = qsim.QState()
        self.gate_trace: List[Tuple] = []
        self.meas_trace: List[Tuple] = []
        self.chooser: Callable[[float, float], int] = first_possible
        self.horizon = horizon
        self.steps = 0
        self._just_reserved: set = set()      # physical qubits reserved and not yet touched by any instruction
        self.step_hook: Optional[Callable] = None     # called before each instruction (scheduling point)
        self.on_wait: Optional[Callable[[], None]] = None
        self.wait_polls = 0
        self.poll_horizon = 64
        self._instruction_handlers["meas_basis"] = self._instr_meas_basis
        self._instruction_handlers["breakpoint"] = self._instr_breakpoint

    # ---- identity -----------------------------------------------------------------
    @property
    def node_id(self) -> int:
        return self._node_id

    # ---- fetch/execute wrapper: horizon + scheduling point --------------------------
    def _execute_command(self, subroutine_id, command):
        self.steps += 1
        if self.steps > self.horizon:
            raise Horizon(f"more than {self.horizon} instructions")
        if self.step_hook is not None:
            out = self.step_hook(subroutine_id, command)
            if isinstance(out, GeneratorType):
                yield from out
        yield from super()._execute_command(subroutine_id, command)

    # ---- quantum hooks ---------------------------------------------------------------
    def _pos(self, subroutine_id: int, address: int) -> int:
        if address < 0:
            raise RuntimeError(f"negative virtual qubit address {address}")
        return self._get_position(subroutine_id=subroutine_id, address=address)

    def _do_single_qubit_instr(self, instr, subroutine_id, address):
        pos = self._pos(subroutine_id, address)
        if isinstance(instr, ins.core.InitInstruction):
            fresh = pos in self._just_reserved
            self._just_reserved.discard(pos)
            if not self.qs.is_product(pos):
                if fresh:
                    # the first instruction on a physical qubit that was just reserved finds it entangled: the physical
                    # qubit was handed out while another virtual qubit still uses it.  An ordinary exception: the executor
                    # reports it as a fault of this instruction and the checks judge it like any other fault.
                    raise RuntimeError("init of a physical qubit that is still entangled with a live qubit "
                                       "(the physical qubit was handed out while in use)")
                # re-initialisation of a qubit in use (Qubit.reset()): measured away, then |0>
                p0, _p1 = self.qs.probabilities(pos)
                self.qs.project(pos, 0 if p0 >= 0.5 else 1)
            self.qs.reset(pos)
            self.gate_trace.append(("init", address))
        else:
            self._just_reserved.discard(pos)
            self.qs.apply(qsim.GATES1[instr.mnemonic], pos)
            self.gate_trace.append((instr.mnemonic, address))
        return None

    def _do_single_qubit_rotation(self, instr, subroutine_id, address, angle):
        pos = self._pos(subroutine_id, address)
        axis = instr.mnemonic[-1]
        self._just_reserved.discard(pos)
        self.qs.apply(qsim.rot(axis, angle), pos)
        self.gate_trace.append((instr.mnemonic, address, instr.angle_num.value, instr.angle_denom.value))
        return None

    def _do_controlled_qubit_rotation(self, instr, subroutine_id, address1, address2, angle):
        p1 = self._pos(subroutine_id, address1)
        p2 = self._pos(subroutine_id, address2)
        if p1 == p2:
            raise RuntimeError("controlled rotation on one qubit")
        axis = instr.mnemonic[-1]
        self._just_reserved -= {p1, p2}
        self.qs.apply(qsim.crot(axis, angle), p1, p2)
        self.gate_trace.append((instr.mnemonic, address1, address2, instr.angle_num.value, instr.angle_denom.value))
        return None

    def _do_two_qubit_instr(self, instr, subroutine_id, address1, address2):
        p1 = self._pos(subroutine_id, address1)
        p2 = self._pos(subroutine_id, address2)
        if p1 == p2:
            raise RuntimeError("two-qubit gate on one qubit")
        mat = {"cnot": qsim.CNOT, "cphase": qsim.CPHASE, "mov": qsim.SWAP}[instr.mnemonic]
        if instr.mnemonic == "mov":
            # mov transfers the state of its first operand onto its second, which must be a freshly initialised qubit (that is
            # all the instruction promises, and all its NV expansion does - C07); anything else is reported as a fault
            if not self.qs.is_product(p2) or self.qs.probabilities(p2)[0] < 1 - 1e-9:
                raise RuntimeError("mov onto a qubit that is not in |0> (the target of a state transfer must be freshly initialised)")
        self._just_reserved -= {p1, p2}
        self.qs.apply(mat, p1, p2)
        self.gate_trace.append((instr.mnemonic, address1, address2))
        return None

    def _measure(self, pos) -> int:
        self._just_reserved.discard(pos)
        p0, p1 = self.qs.probabilities(pos)
        out = self.chooser(p0, p1)
        if (p1 if out else p0) <= 1e-9:
            raise HarnessLimit("chooser picked a zero-probability outcome")
        self.qs.project(pos, out)
        return out

    def _do_meas(self, subroutine_id, q_address):
        pos = self._pos(subroutine_id, q_address)
        out = self._measure(pos)
        self.gate_trace.append(("meas", q_address))
        self.meas_trace.append((q_address, out))
        return out

    def _instr_meas_basis(self, subroutine_id, instr):
        """The base executor has no handler for meas_basis (back-ends supply one).  Harness semantics:
        rotate X(x1) Y(y) X(x2), measure Z, rotate back."""
        app_id = self._get_app_id(subroutine_id=subroutine_id)
        q_address = self._get_register(app_id=app_id, register=instr.qreg)
        pos = self._pos(subroutine_id, q_address)
        d = instr.angle_denom.value
        rots = [("x", instr.angle_num_x1.value), ("y", instr.angle_num_y.value), ("x", instr.angle_num_x2.value)]
        for ax, n in rots:
            self.qs.apply(qsim.rot(ax, qsim.angle(n, d)), pos)
        out = self._measure(pos)
        for ax, n in reversed(rots):
            self.qs.apply(qsim.rot(ax, -qsim.angle(n, d)), pos)
        self._set_register(app_id=app_id, register=instr.creg, value=out)
        self.gate_trace.append(("meas_basis", q_address, rots[0][1], rots[1][1], rots[2][1], d))
        self.meas_trace.append((q_address, out))
        self._program_counters[subroutine_id] += 1
        return out

    def _instr_breakpoint(self, subroutine_id, instr):
        self._program_counters[subroutine_id] += 1

    def _reserve_physical_qubit(self, physical_address):
        if not self.qs.has(physical_address):
            self.qs.add(physical_address)
        return None

    def _allocate_physical_qubit(self, *args, **kwargs):
        # a qalloc (no physical qubit named by the caller, unlike the mapping of a delivered pair) yields a qubit whose first
        # instruction must find it unentangled
        given = kwargs.get("physical_address", args[2] if len(args) > 2 else None)
        out = super()._allocate_physical_qubit(*args, **kwargs)
        if given is None:
            self._just_reserved.add(out)
        return out

    def _clear_phys_qubit_in_memory(self, physical_address):
        if self.qs.has(physical_address):
            self.qs.remove(physical_address)
        return None

    # ---- waiting and EPR -----------------------------------------------------------------
    def _do_wait(self):
        self.wait_polls += 1
        if self.wait_polls > self.poll_horizon:
            raise Horizon("wait polled too often")
        if self.on_wait is None:
            raise Blocked("wait instruction with nothing deliverable")
        out = self.on_wait()
        if isinstance(out, GeneratorType):
            return out
        return None

    def _wait_to_handle_epr_responses(self) -> None:
        # the base version recurses forever; a retry is an explorer-scheduled event
        return None

    def _do_recv_epr(self, subroutine_id, remote_node_id, epr_socket_id, q_array_address, ent_results_array_address):
        out = super()._do_recv_epr(subroutine_id, remote_node_id, epr_socket_id, q_array_address, ent_results_array_address)
        if isinstance(self.network_stack, ScriptedStack):
            purpose_id = self._get_purpose_id(remote_node_id=remote_node_id, epr_socket_id=epr_socket_id)
            data = self._epr_recv_requests[remote_node_id, purpose_id][-1]
            self.network_stack.note_recv(remote_node_id, purpose_id, data.tot_pairs)
        return out

    # ---- observation -------------------------------------------------------------------
    def classical_snapshot(self, app_id: int) -> Dict[str, Any]:
        return _classical_snapshot(self, app_id)

    def _old_classical_snapshot(self, app_id: int) -> Dict[str, Any]:
        regs = {}
        for name, group in self._registers[app_id].items():
            for idx, v in register_items(group):
                if v is not None:
                    regs[f"{name.name}{idx}"] = v
        arrays = {str(a): list(v) for a, v in sorted(self._app_arrays[app_id]._arrays.items())}
        sh = self._shared_memories[app_id]
        sregs = {}
        for name, group in sh._registers.items():
            for idx, v in register_items(group):
                if v is not None:
                    sregs[f"{name.name}{idx}"] = v
        sarr = {str(a): list(v) for a, v in sorted(sh._arrays._arrays.items())}
        um = self._qubit_unit_modules[app_id]
        return {"regs": dict(sorted(regs.items())), "arrays": arrays, "shared_regs": dict(sorted(sregs.items())),
                "shared_arrays": sarr, "alloc": [i for i, p in enumerate(um) if p is not None]}


class SimController(QNodeController):
    def __init__(self, name: str, flavour=None, node_id: int = 0, horizon: int = 2000):
        super().__init__(name=name, flavour=flavour, node_id=node_id, horizon=horizon)
        self.finished_ids: List[int] = []
        self.stack = ScriptedStack()
        self.add_network_stack(self.stack)

    @classmethod
    def _get_executor_class(cls, flavour=None):
        return SimExecutor

    def stop(self) -> None:
        pass

    def _mark_message_finished(self, msg_id, msg) -> None:
        self.finished_ids.append(msg_id)

    @property
    def executor(self) -> SimExecutor:
        return self._executor  # type: ignore


def drain(gen) -> None:
    if isinstance(gen, GeneratorType):
        for _ in gen:
            pass


class SimConnection(BaseNetQASMConnection):
    """flush -> builder -> assembler -> (transpiler) -> bytes -> message -> deserialize -> executor."""

    def __init__(self, app_name: str, controller: SimController, **kwargs):
        self._controller = controller
        self._msg_id = 0
        self.sent: List[bytes] = []
        self.sent_subroutines: List[Any] = []
        self.driver: Optional[Callable] = None     # explorer hook: receives the controller generator
        kwargs.setdefault("node_name", controller.name)
        super().__init__(app_name=app_name, **kwargs)

    def _get_network_info(self):
        return SimNetworkInfo

    def commit_subroutine(self, subroutine, block=True, callback=None):
        self.sent_subroutines.append(subroutine)
        super().commit_subroutine(subroutine, block, callback)

    def _commit_serialized_message(self, raw_msg: bytes, block: bool = True, callback=None) -> None:
        self.sent.append(raw_msg)
        msg = deserialize_host_msg(raw_msg)
        mid = self._msg_id
        self._msg_id += 1
        gen = self._controller.handle_netqasm_message(msg_id=mid, msg=msg)
        if self.driver is not None:
            self.driver(gen)
        else:
            drain(gen)
        if callback is not None:
            callback()


def make_pair(app_name: str = "alice", flavour=None, node_id: Optional[int] = None, horizon: int = 2000, **conn_kwargs):
    """Fresh world: controller + connection.  Caller must have called world.reset()."""
    nid = NODE_IDS.get(app_name, 0) if node_id is None else node_id
    ctrl = SimController(name=app_name, flavour=flavour, node_id=nid, horizon=horizon)
    conn = SimConnection(app_name, ctrl, **conn_kwargs)
    return ctrl, conn
