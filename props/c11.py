"""C11 — EPR requests and results cross the SDK/controller boundary intact.

Deciding step: bounded-exhaustive enumeration of public `EPRSocket` calls (part 1) and of
scripted link-layer responses (part 2), each executed on the real pipeline

    EPRSocket.<call> -> Builder -> assembler -> bytes -> deserialize -> real Executor -> recording stack

Part 1 (requests).  Oracle = an independently written parameter map "API argument -> field of
the LinkLayerCreate the stack receives" (with the documented defaults for everything the
application did not set), enum-typed fields are real enum members, and
`netqasm.qlink_compat.request_to_qlink_1_0(request)` succeeds with matching fields.  For the
receiving roles: what the executor registered (remote node id, purpose id, number of pairs).

Part 2 (results).  Responses are scripted with all-distinct field values
(1000*pair + 10*field_index + 1; enum fields and routing fields restricted to legal values but
varied per pair / per case).  After the flush every host handle must read the field with the
corresponding *name* of *its* pair's response, by a field table written here from the
namedtuple definitions (not from the SER_* constants of build_epr.py, which are under test).

Schedule: "deliver the next pair when a wait instruction would block" (interleavings are C12).
"""
from __future__ import annotations

import itertools
import math
from enum import Enum
from typing import Any, Dict, List, Optional, Tuple

import numpy as np

from mc import qsim, simctl, world
from mc.report import guard_harness as _guard
from mc.report import CheckBroken, add_sample, add_violation, count, new_part

LEVEL = "exploration"
RULE = ("part 1: request type K/M/R x role x public API entry point (create_keep, create_keep_with_info, create_measure, "
        "create_rsp, deprecated create(tp=..), create_context, sequential+post_routine; recv_* likewise) x number 1..3 x every "
        "TimeUnit x max_time {0,1,1000} x socket id {0,1,3} x remote node {bob, charlie} x measurement spec (each rotation "
        "component 0..31 one at a time, the {0,1,31}^3 cube local / remote / local x remote, all (EprMeasBasis|None)^2, all "
        "(RandomBasis|None)^2) x min_fidelity_all_at_end/max_tries variants (first try succeeds / first try fails); "
        "every seventh case of part 1 also with an EPRSocket object that served a connection of another network before; "
        "part 2: API entry point x role x number 1..3 x socket x remote x Bell/basis rotation of the per-pair enum fields x "
        "expect_phi_plus x with/without min-fidelity loop, responses with all-distinct field values; distinct = distinct case "
        "description; every case is non-trivial (a request is issued / a registration is made and all pairs are delivered)")
ASSUMPTIONS = [
    "schedule fixed to 'deliver the next scripted pair when a wait instruction would block' (all interleavings are C12)",
    "when max_time == 0 ('no limit') the time unit seen by the stack is a don't-care (0 units are 0 in every unit)",
    "purpose id = 700 + 10*remote_node_id + epr_socket_id as answered by the recording stack's get_purpose_id (the stack owns "
    "this mapping); routing fields of a response (type, directionality, purpose id, remote node id) must be the request's, "
    "so they are varied through the request (socket, remote node), not freely",
    "generation_duration reads the link-layer 'goodness' field (this code base's convention, DESIGN C11)",
    "EprMeasureResult.measurement_outcome is compared with the raw outcome only where no post-processing applies "
    "(creator role, expect_phi_plus=False, or Bell state Phi+); the Bell-state post-processing itself is C10",
    "R-type creators receive results in the M layout, R-type receivers in the K layout (as the builder documents); "
    "request_to_qlink_1_0 has no R branch and refuses R requests with its documented ValueError: counted, not a violation; "
    "R requests are still checked field by field and for enum membership",
    "only usages the docs/examples/tests exhibit: one way of naming a basis per side and call (basis | rotations | random "
    "basis); create_keep_with_info(min_fidelity_all_at_end=..) is not enumerated (no max_tries parameter exists there)",
    "generic hardware and the NV hardware configuration (single communication qubit, real NV transpiler) for keep requests",
]

# ======================================================================================
# Independent tables (written from the documentation / namedtuple definitions; nothing
# below imports SER_* constants, OK_FIELDS_* or LinkLayer*._fields)
# ======================================================================================

NODE = {"alice": 0, "bob": 1, "charlie": 2}

CREATE_FIELDS = (
    "remote_node_id", "purpose_id", "type", "number", "random_basis_local", "random_basis_remote", "minimum_fidelity",
    "time_unit", "max_time", "priority", "atomic", "consecutive", "probability_dist_local1", "probability_dist_local2",
    "probability_dist_remote1", "probability_dist_remote2", "rotation_X_local1", "rotation_Y_local", "rotation_X_local2",
    "rotation_X_remote1", "rotation_Y_remote", "rotation_X_remote2",
)
K_FIELDS = ("type", "create_id", "logical_qubit_id", "directionality_flag", "sequence_number", "purpose_id", "remote_node_id",
            "goodness", "goodness_time", "bell_state")
M_FIELDS = ("type", "create_id", "measurement_outcome", "measurement_basis", "directionality_flag", "sequence_number",
            "purpose_id", "remote_node_id", "goodness", "bell_state")
K_IDX = {f: i for i, f in enumerate(K_FIELDS)}
M_IDX = {f: i for i, f in enumerate(M_FIELDS)}

TIME_UNIT_VALUE = {"MICRO_SECONDS": 0, "MILLI_SECONDS": 1, "SECONDS": 2}      # qlink: 0 us, 1 ms, 2 s
RANDOM_BASIS_VALUE = {"NONE": 0, "XZ": 1, "XYZ": 2, "CHSH": 3}
BELL_VALUE = {"PHI_PLUS": 0, "PSI_PLUS": 1, "PSI_MINUS": 2, "PHI_MINUS": 3}    # netqasm's numbering (qlink_compat.BellState)
BELL_NAMES = ["PHI_PLUS", "PSI_PLUS", "PSI_MINUS", "PHI_MINUS"]
MEAS_BASIS_VALUE = {"Z": 0, "X": 1, "Y": 2, "ZPLUSX": 3, "ZMINUSX": 4}
MEAS_BASIS_NAMES = ["Z", "X", "Y", "ZPLUSX", "ZMINUSX"]
RETURN_TYPE_VALUE = {"OK_K": 0, "OK_M": 1}

# named measurement basis -> (X rotation, Y rotation, X rotation) in units of pi/16 applied before a Z measurement.
# Derived by hand (and re-derived numerically in `selfcheck_basis_table`): the +1 eigenstate of the named
# axis must be rotated onto |0>.
BASIS_ROT = {"X": (0, 24, 0), "Y": (8, 0, 0), "Z": (0, 0, 0), "MX": (0, 8, 0), "MY": (24, 0, 0), "MZ": (16, 0, 0)}
_PLUS_EIGENSTATE = {
    "X": (1, 1), "MX": (1, -1), "Y": (1, 1j), "MY": (1, -1j), "Z": (1, 0), "MZ": (0, 1),
}

PURPOSE_BASE = 700


def purpose_of(remote_node_id: int, epr_socket_id: int) -> int:
    return PURPOSE_BASE + 10 * remote_node_id + epr_socket_id


def selfcheck_basis_table() -> None:
    """Rx(x2) Ry(y) Rx(x1) |+axis> must be |0> up to phase (angles n*pi/16)."""
    for name, (x1, y, x2) in BASIS_ROT.items():
        v = np.array(_PLUS_EIGENSTATE[name], dtype=complex)
        v = v / np.linalg.norm(v)
        for ax, n in (("x", x1), ("y", y), ("x", x2)):
            v = qsim.rot(ax, n * math.pi / 16) @ v
        if abs(abs(v[0]) - 1) > 1e-9:
            raise CheckBroken(f"C11 basis table is wrong for {name}: {v}")


# API entry points per (type, role).  "name:variant".
APIS = {
    ("K", "create"): ["create_keep", "create_keep_with_info", "create:K", "create_context", "create_context:sequential",
                      "create_keep:sequential", "create_keep:post"],
    ("M", "create"): ["create_measure", "create:M"],
    ("R", "create"): ["create_rsp", "create:R"],
    ("K", "recv"): ["recv_keep", "recv_keep_with_info", "recv:K", "recv_context", "recv_context:sequential",
                    "recv_keep:sequential", "recv_keep:post"],
    ("M", "recv"): ["recv_measure", "recv:M"],
    ("R", "recv"): ["recv_rsp", "recv_rsp_with_info", "recv:R"],
}
# layout of the responses the node receives for (type, role)
LAYOUT = {("K", "create"): "K", ("K", "recv"): "K", ("M", "create"): "M", ("M", "recv"): "M", ("R", "create"): "M",
          ("R", "recv"): "K"}


# ======================================================================================
# World, scripted deliveries, API dispatch
# ======================================================================================

class Deliverer:
    """Queues the scripted responses of a request when the stack records it, delivers one per blocked wait."""

    def __init__(self, ctrl, case, script):
        self.ctrl = ctrl
        self.ex = ctrl.executor
        self.case = case
        self.script = script
        self.queue: List[Tuple[int, int, Any]] = []
        self.delivered: List[Tuple[int, int, Any]] = []     # (attempt, pair, response)
        self.attempts = 0
        self.tags: Dict[int, Any] = {}
        ctrl.stack.on_request = self.on_request
        ctrl.executor.on_wait = self.on_wait

    def on_request(self, kind, data):
        attempt = self.attempts
        self.attempts += 1
        number = self.case["kwargs"].get("number", 1)
        for p in range(number):
            self.queue.append((attempt, p, self.script(self.case, attempt, p)))

    def on_wait(self):
        if not self.queue:
            raise simctl.Blocked("wait instruction blocks although every scripted pair was delivered")
        attempt, p, resp = self.queue.pop(0)
        if LAYOUT[(self.case["type"], self.case["role"])] == "K" and self.case.get("tag"):
            # distinguishable product state on the fresh physical qubit: identifies the pair after NV moves
            phys = resp[K_IDX["logical_qubit_id"]]
            t = tag_angle(p)
            if not self.ex.qs.has(phys):
                self.ex.qs.add(phys, [math.cos(t), math.sin(t)])
        self.delivered.append((attempt, p, resp))
        if self.case.get("fmt") == "qlink_1_0":
            resp = to_qlink_1_0(resp)          # the executor converts qlink-interface 1.0 responses itself
        self.ex._handle_epr_response(resp)
        return None


def tag_angle(pair: int) -> float:
    return 0.3 + 0.5 * pair


def remote_socket_of(case) -> int:
    """the remote side's socket id: never equal to the local one, so the two cannot be confused unnoticed"""
    return case.get("remote_socket", (case["socket"] + 2) % 5)


def make_world(case):
    from netqasm.sdk.epr_socket import EPRSocket
    world.reset()
    es = EPRSocket(case["remote"], epr_socket_id=case["socket"], remote_epr_socket_id=remote_socket_of(case))
    if case.get("socket_history") == "used-before-in-another-network":
        # the same socket object served an earlier connection of a network in which the remote application ran on another
        # node: nothing of that attachment may survive into the requests of this one
        from netqasm.sdk.connection import DebugConnection
        DebugConnection.node_ids = {"alice": 0, case["remote"]: 9}
        with DebugConnection("alice", epr_sockets=[es]):
            (es.create_keep if case["role"] == "create" else es.recv_keep)(number=1)[0].measure()
        world.reset()
    kwargs: Dict[str, Any] = {"epr_sockets": [es]}
    if case.get("max_qubits"):
        kwargs["max_qubits"] = case["max_qubits"]
    flavour = None
    if case.get("hw") == "nv":
        from netqasm.lang.instr.flavour import NVFlavour
        from netqasm.sdk.build_types import NVHardwareConfig
        from netqasm.sdk.transpile import NVSubroutineTranspiler
        kwargs["hardware_config"] = NVHardwareConfig(num_qubits=5)
        kwargs["compiler"] = NVSubroutineTranspiler
        flavour = NVFlavour()
    ctrl, conn = simctl.make_pair("alice", flavour=flavour, horizon=40000, **kwargs)
    ctrl.executor.poll_horizon = 64
    ctrl.stack.get_purpose_id = purpose_of      # the recording stack's own (harness) mapping
    return ctrl, conn, es


def decode_kwargs(kw: Dict[str, Any]) -> Dict[str, Any]:
    from netqasm.qlink_compat import RandomBasis, TimeUnit
    from netqasm.sdk.build_epr import EprMeasBasis
    out: Dict[str, Any] = {}
    for k, v in kw.items():
        if k == "time_unit":
            out[k] = TimeUnit[v]
        elif k in ("basis_local", "basis_remote"):
            out[k] = None if v is None else EprMeasBasis[v]
        elif k in ("random_basis_local", "random_basis_remote"):
            out[k] = None if v is None else RandomBasis[v]
        elif k in ("rotations_local", "rotations_remote"):
            out[k] = tuple(v)
        else:
            out[k] = v
    return out


def call_api(es, conn, case) -> Dict[str, Any]:
    """The application's call, exactly as the docs/examples spell it."""
    from netqasm.qlink_compat import EPRType
    name, _, variant = case["api"].partition(":")
    kw = decode_kwargs(case["kwargs"])
    h: Dict[str, Any] = {}
    if variant == "sequential" and name in ("create_keep", "recv_keep"):
        n = kw.get("number", 1)
        outcomes = conn.new_array(n)

        def post(_c, q, pair):
            q.H()
            outcome = outcomes.get_future_index(pair)
            q.measure(outcome)

        getattr(es, name)(post_routine=post, sequential=True, **kw)
        h["outcomes"] = outcomes
    elif variant == "post" and name in ("create_keep", "recv_keep"):
        # non-sequential request with a post routine that keeps its qubits (a failed min-fidelity try must give them back)
        h["qubits"] = getattr(es, name)(post_routine=lambda _c, q, pair: q.H(), sequential=False, **kw)
    elif name in ("create_context", "recv_context"):
        n = kw.get("number", 1)
        outcomes = conn.new_array(n)
        with getattr(es, name)(sequential=(variant == "sequential"), **kw) as (q, pair):
            q.H()
            outcome = outcomes.get_future_index(pair)
            q.measure(outcome)
        h["outcomes"] = outcomes
    elif name in ("create", "recv"):
        out = getattr(es, name)(tp=EPRType[variant], **kw)
        if variant == "K" or (variant == "R" and name == "recv"):
            h["qubits"] = out
        else:
            h["meas"] = out
    elif name in ("create_keep", "recv_keep", "recv_rsp"):
        h["qubits"] = getattr(es, name)(**kw)
    elif name in ("create_keep_with_info", "recv_keep_with_info", "recv_rsp_with_info"):
        h["qubits"], h["keep"] = getattr(es, name)(**kw)
    elif name in ("create_measure", "recv_measure", "create_rsp"):
        h["meas"] = getattr(es, name)(**kw)
    else:
        raise CheckBroken(f"unknown api {case['api']}")
    return h


def execute(case, script):
    """Returns (ctrl, conn, handles, deliverer, error); error = (fingerprint suffix, text) if the call or flush failed."""
    ctrl, conn, es = make_world(case)
    d = Deliverer(ctrl, case, script)
    handles: Dict[str, Any] = {}
    err = None
    try:
        handles = call_api(es, conn, case)
        conn.flush()
    except simctl.Blocked as exc:
        err = ("flush-blocked", f"the flush cannot complete: {exc}")
    except simctl.Horizon as exc:
        err = ("flush-diverges", f"the flush does not terminate: {exc}")
    except CheckBroken:
        raise
    except Exception as exc:  # noqa
        _guard(exc)
        err = ("raises:" + type(exc).__name__, f"documented call fails: {type(exc).__name__}: {exc}")
    return ctrl, conn, handles, d, err


def to_qlink_1_0(resp):
    """The same response as a qlink-interface 1.0 object (field by field, Bell states and bases by name)."""
    import qlink_interface as ql
    from netqasm.qlink_compat import LinkLayerOKTypeK
    if isinstance(resp, LinkLayerOKTypeK):
        return ql.ResCreateAndKeep(create_id=resp.create_id, logical_qubit_id=resp.logical_qubit_id,
                                   directionality_flag=resp.directionality_flag, sequence_number=resp.sequence_number,
                                   purpose_id=resp.purpose_id, remote_node_id=resp.remote_node_id, goodness=resp.goodness,
                                   time_of_goodness=resp.goodness_time, bell_state=ql.BellState[resp.bell_state.name])
    return ql.ResMeasureDirectly(create_id=resp.create_id, measurement_outcome=resp.measurement_outcome,
                                 measurement_basis=ql.MeasurementBasis[resp.measurement_basis.name],
                                 directionality_flag=resp.directionality_flag, sequence_number=resp.sequence_number,
                                 purpose_id=resp.purpose_id, remote_node_id=resp.remote_node_id, goodness=resp.goodness,
                                 bell_state=ql.BellState[resp.bell_state.name])


def response(layout: str, values: List[Any]):
    from netqasm.qlink_compat import LinkLayerOKTypeK, LinkLayerOKTypeM
    return (LinkLayerOKTypeK if layout == "K" else LinkLayerOKTypeM)(*values)


# ======================================================================================
# Part 1 — requests
# ======================================================================================

def script_requests(case, attempt: int, pair: int):
    """Plain responses that let the flush complete; goodness decides the min-fidelity loop."""
    from netqasm.qlink_compat import Basis, BellState, ReturnType
    layout = LAYOUT[(case["type"], case["role"])]
    d = 0 if case["role"] == "create" else 1
    rid = NODE[case["remote"]]
    pid = purpose_of(rid, case["socket"])
    goodness = 10 ** 6 if (case.get("fail_first") and attempt == 0) else 1
    if layout == "K":
        return response("K", [ReturnType.OK_K, 7, 500 + 10 * attempt + pair, d, pair, pid, rid, goodness, 3, BellState.PHI_PLUS])
    return response("M", [ReturnType.OK_M, 7, pair % 2, Basis.Z, d, pair, pid, rid, goodness, BellState.PHI_PLUS])


def expected_create(case) -> Dict[str, Any]:
    """The independent parameter map: API arguments -> fields of the LinkLayerCreate the stack must receive."""
    T = case["type"]
    kw = case["kwargs"]
    rid = NODE[case["remote"]]
    e: Dict[str, Any] = {f: 0 for f in CREATE_FIELDS}
    e["remote_node_id"] = rid
    e["purpose_id"] = purpose_of(rid, case["socket"])
    e["type"] = T
    e["number"] = kw.get("number", 1)
    e["random_basis_local"] = "NONE"
    e["random_basis_remote"] = "NONE"
    max_time = kw.get("max_time", 0)
    e["max_time"] = max_time
    unit = TIME_UNIT_VALUE[kw.get("time_unit", "MICRO_SECONDS")]
    e["time_unit"] = (unit,) if max_time != 0 else (0, unit)       # acceptable values
    if T in ("M", "R"):
        def rot(side):
            b = kw.get("basis_" + side)
            if b is not None:
                return BASIS_ROT[b]
            return tuple(kw.get("rotations_" + side, (0, 0, 0)))
        loc = rot("local")
        rem = rot("remote") if T == "M" else (0, 0, 0)
        e["rotation_X_local1"], e["rotation_Y_local"], e["rotation_X_local2"] = loc
        e["rotation_X_remote1"], e["rotation_Y_remote"], e["rotation_X_remote2"] = rem
        if kw.get("random_basis_local") is not None:
            e["random_basis_local"] = kw["random_basis_local"]
        if T == "M" and kw.get("random_basis_remote") is not None:
            e["random_basis_remote"] = kw["random_basis_remote"]
    return e


QLINK_BASE = ("remote_node_id", "minimum_fidelity", "time_unit", "max_time", "purpose_id", "number", "priority", "atomic",
              "consecutive")
QLINK_MD = {   # qlink-interface 1.0 ReqMeasureDirectly field -> LinkLayerCreate field
    "x_rotation_angle_local_1": "rotation_X_local1", "y_rotation_angle_local": "rotation_Y_local",
    "x_rotation_angle_local_2": "rotation_X_local2", "x_rotation_angle_remote_1": "rotation_X_remote1",
    "y_rotation_angle_remote": "rotation_Y_remote", "x_rotation_angle_remote_2": "rotation_X_remote2",
    "probability_distribution_parameter_local_1": "probability_dist_local1",
    "probability_distribution_parameter_remote_1": "probability_dist_remote1",
    "probability_distribution_parameter_local_2": "probability_dist_local2",
    "probability_distribution_parameter_remote_2": "probability_dist_remote2",
}


def _plain_eq(got, exp) -> bool:
    return (not isinstance(got, Enum)) and isinstance(got, int) and got == exp


def check_create_request(req, case, part, which: int) -> None:
    import qlink_interface as ql
    from netqasm.qlink_compat import LinkLayerCreate, RandomBasis, RequestType, TimeUnit, request_to_qlink_1_0
    T = case["type"]
    fp = f"requests/{T}/create/"
    exp = expected_create(case)
    if not isinstance(req, LinkLayerCreate) or tuple(req._fields) != CREATE_FIELDS:
        add_violation(part, fp + "not-a-LinkLayerCreate", "the stack received something that is not a LinkLayerCreate with the "
                      "link-layer field list", case, {"got": repr(req)})
        return
    detail = {"request_index": which, "received": {f: repr(getattr(req, f)) for f in CREATE_FIELDS}}
    for f in CREATE_FIELDS:
        g = getattr(req, f)
        e = exp[f]
        if f == "type":
            if not isinstance(g, RequestType):
                add_violation(part, fp + "type:not-enum", "request.type is not a RequestType member", case, detail)
            elif g.name != e:
                add_violation(part, fp + "type", f"request type {g.name} received, {e} requested", case, detail)
        elif f in ("random_basis_local", "random_basis_remote"):
            if not isinstance(g, RandomBasis):
                add_violation(part, fp + f + ":not-enum", f"{f} reaches the stack as {type(g).__name__} {g!r}, the link-layer "
                              "interface expects a RandomBasis member", case, detail)
                if not (isinstance(g, int) and g == RANDOM_BASIS_VALUE[e]):
                    add_violation(part, fp + f, f"{f}: received {g!r}, requested {e}", case, detail)
            elif g.name != e or g.value != RANDOM_BASIS_VALUE[e]:
                add_violation(part, fp + f, f"{f}: received {g!r}, requested {e}", case, detail)
        elif f == "time_unit":
            gv = g.value if isinstance(g, TimeUnit) else g
            if not (isinstance(gv, int) and gv in e):
                add_violation(part, fp + f, f"time_unit: received {g!r}, expected one of {e}", case, detail)
        else:
            if not _plain_eq(g, e):
                add_violation(part, fp + f, f"{f}: received {g!r}, expected {e!r}", case, detail)
    # "in a form the link-layer interface accepts"
    try:
        q = request_to_qlink_1_0(req)
    except Exception as exc:  # noqa
        _guard(exc)
        if T == "R" and isinstance(exc, ValueError) and "Cannot convert request" in str(exc):
            count(part, "qlink_1_0/refuses-R-by-design")
            return
        add_violation(part, fp + "qlink_1_0-conversion", f"request_to_qlink_1_0 rejects the request the executor built: "
                      f"{type(exc).__name__}: {exc}", case, detail)
        return
    if T == "R":
        count(part, "qlink_1_0/converted-R")
        return
    count(part, "qlink_1_0/converted")
    want_cls = ql.ReqCreateAndKeep if T == "K" else ql.ReqMeasureDirectly
    if type(q) is not want_cls:
        add_violation(part, fp + "qlink_1_0-class", f"converted to {type(q).__name__}, expected {want_cls.__name__}", case, detail)
        return
    qd = {"converted": repr(q)}
    qd.update(detail)
    for f in QLINK_BASE:
        g = getattr(q, f)
        gv = g.value if isinstance(g, TimeUnit) else g
        ok = (gv in exp[f]) if f == "time_unit" else (gv == exp[f] and not isinstance(gv, Enum))
        if not ok:
            add_violation(part, fp + "qlink_1_0." + f, f"qlink 1.0 request field {f} = {g!r}, expected {exp[f]!r}", case, qd)
    if T == "M":
        for qf, lf in QLINK_MD.items():
            if getattr(q, qf) != exp[lf]:
                add_violation(part, fp + "qlink_1_0." + qf, f"qlink 1.0 request field {qf} = {getattr(q, qf)!r}, expected "
                              f"{exp[lf]!r}", case, qd)
        for side in ("local", "remote"):
            g = getattr(q, "random_basis_" + side)
            name = exp["random_basis_" + side]
            if not (isinstance(g, ql.RandomBasis) and g.name == name and g.value == RANDOM_BASIS_VALUE[name]):
                add_violation(part, fp + "qlink_1_0.random_basis_" + side, f"qlink 1.0 random_basis_{side} = {g!r}, expected "
                              f"{name}", case, qd)


def run_request_case(case, part) -> None:
    T, role = case["type"], case["role"]
    fp = f"requests/{T}/{role}/"
    part["evals"] += 1
    part["distinct"] += 1
    ctrl, conn, handles, d, err = execute(case, script_requests)
    if err is not None:
        # still judge what reached the stack: it usually names the cause
        add_violation(part, fp + err[0], err[1], case, {"requests": [repr(r) for r in ctrl.stack.requests],
                                                       "recvs": ctrl.stack.recvs})
    looped = case["kwargs"].get("min_fidelity_all_at_end") is not None
    number = case["kwargs"].get("number", 1)
    stack = ctrl.stack
    # the socket registration that crossed the boundary when the connection opened
    want_sock = [(case["socket"], NODE[case["remote"]], remote_socket_of(case))]
    got_sock = [tuple(x) for x in stack.sockets]
    if got_sock != want_sock:
        add_violation(part, "socket-registration", f"the network stack was asked to set up EPR socket(s) {got_sock} (local id, remote "
                      f"node, remote id); the application opened {want_sock}", case)
    count(part, "socket-registrations")
    count(part, f"req/{T}/{role}")
    count(part, f"api/{case['api']}")
    n_seen = len(stack.requests) if role == "create" else len(stack.recvs)
    if looped:
        # how often a min-fidelity loop re-issues the request is not C11's business: every request that reaches
        # the stack must be the one asked for, and there must be at least one
        count(part, "loop/" + ("retried" if n_seen > 1 else "single"))
        count_ok = n_seen >= 1
    else:
        count_ok = n_seen == 1
    if role == "create":
        if not count_ok:
            add_violation(part, fp + "request-count", f"{n_seen} create request(s) reached the stack for one call", case,
                          {"requests": [repr(r) for r in stack.requests]})
        if stack.recvs:
            add_violation(part, fp + "spurious-recv", "a create call registered a receive", case, {"recvs": stack.recvs})
        for i, req in enumerate(stack.requests):
            check_create_request(req, case, part, i)
    else:
        rid = NODE[case["remote"]]
        want = (rid, purpose_of(rid, case["socket"]), number)
        if stack.requests:
            add_violation(part, fp + "spurious-create", "a receive call put a create request", case,
                          {"requests": [repr(r) for r in stack.requests]})
        if not count_ok:
            add_violation(part, fp + "registration-count", f"{n_seen} receive registration(s) for one call", case,
                          {"recvs": stack.recvs})
        for got in stack.recvs:
            got = tuple(got)
            for k, f in enumerate(("remote_node_id", "purpose_id", "number")):
                if not _plain_eq(got[k], want[k]):
                    add_violation(part, fp + f, f"executor registered {f} = {got[k]!r} for the receive, expected {want[k]!r}",
                                  case, {"registered": list(got), "expected": list(want)})
    if err is not None:
        return
    if not looped and (len(d.delivered) != number or d.queue):
        add_violation(part, fp + "pairs-consumed", f"{len(d.delivered)} pair(s) were awaited, {number} expected", case)
    if looped and len(d.delivered) < number:
        add_violation(part, fp + "pairs-consumed", f"{len(d.delivered)} pair(s) were awaited, at least {number} expected", case)


# ---- enumeration of part 1 ------------------------------------------------------------------

NUMBERS = [1, 2, 3]
SOCKETS = [0, 1, 3]
REMOTES = ["bob", "charlie"]
MAX_TIMES = [0, 1, 1000]
CUBE = [0, 1, 31]


def live_names(enum_cls_name: str) -> List[str]:
    """Names of the live enum members (a new member is enumerated too; a missing table entry breaks the check)."""
    from netqasm import qlink_compat
    from netqasm.sdk import build_epr
    cls = getattr(qlink_compat, enum_cls_name, None) or getattr(build_epr, enum_cls_name)
    return [m.name for m in cls]


def base_points(full: bool) -> List[Dict[str, Any]]:
    """number x time_unit x max_time x socket x remote; `full` = whole product, else two backgrounds + one-at-a-time."""
    units = live_names("TimeUnit")
    for u in units:
        if u not in TIME_UNIT_VALUE:
            raise CheckBroken(f"TimeUnit.{u} unknown to the C11 table")
    pts = []
    if full:
        for n, u, mt, s, r in itertools.product(NUMBERS, units, MAX_TIMES, SOCKETS, REMOTES):
            pts.append({"number": n, "time_unit": u, "max_time": mt, "socket": s, "remote": r})
        return pts
    lows = {"number": 1, "time_unit": units[0], "max_time": 0, "socket": 0, "remote": "bob"}
    highs = {"number": 3, "time_unit": units[-1], "max_time": 1000, "socket": 3, "remote": "charlie"}
    seen = []
    for bg in (lows, highs):
        for dim, vals in (("number", NUMBERS), ("time_unit", units), ("max_time", MAX_TIMES), ("socket", SOCKETS),
                          ("remote", REMOTES)):
            for v in vals:
                p = dict(bg)
                p[dim] = v
                if p not in seen:
                    seen.append(p)
    return seen


def meas_specs(T: str, level: str) -> List[Dict[str, Any]]:
    """Measurement specifications for M (local and remote) / R (local only).  level: core | sweep | cube2"""
    sides = ["local", "remote"] if T == "M" else ["local"]
    bases = [None] + live_names("EprMeasBasis")
    rbs = [None] + sorted(live_names("RandomBasis"), key=lambda n: n == "NONE")     # explicit NONE last
    for b in bases[1:]:
        if b not in BASIS_ROT:
            raise CheckBroken(f"EprMeasBasis.{b} unknown to the C11 table")
    for b in rbs[1:]:
        if b not in RANDOM_BASIS_VALUE:
            raise CheckBroken(f"RandomBasis.{b} unknown to the C11 table")
    out: List[Dict[str, Any]] = []
    if level == "core":
        out.append({})
        for combo in itertools.product(bases, repeat=len(sides)):
            if any(c is not None for c in combo):
                out.append({"basis_" + s: c for s, c in zip(sides, combo) if c is not None})
        for combo in itertools.product(rbs, repeat=len(sides)):
            if any(c is not None for c in combo):
                out.append({"random_basis_" + s: c for s, c in zip(sides, combo) if c is not None})
        for s in sides:
            for c in itertools.product(CUBE, repeat=3):
                if c != (0, 0, 0):
                    out.append({"rotations_" + s: list(c)})
    elif level == "sweep":
        for s in sides:
            other = [x for x in sides if x != s]
            for other_rot in ([None, [31, 1, 30]] if other else [None]):
                for comp in range(3):
                    for v in range(32):
                        for bgv in (0, 17):
                            r = [bgv, bgv, bgv]
                            r[comp] = v
                            spec = {"rotations_" + s: r}
                            if other_rot is not None:
                                spec["rotations_" + other[0]] = other_rot
                            if spec not in out:
                                out.append(spec)
    elif level == "cube2":
        if T == "M":
            for a in itertools.product(CUBE, repeat=3):
                for b in itertools.product(CUBE, repeat=3):
                    if a != (0, 0, 0) and b != (0, 0, 0):
                        out.append({"rotations_local": list(a), "rotations_remote": list(b)})
    return out


LOOPS = [None, (80, 100), (0, 2), (100, 5)]     # (min_fidelity_all_at_end, max_tries)


def request_cases(T: str, role: str, api: str, tier: str) -> List[Dict[str, Any]]:
    thorough = tier == "thorough"
    name, _, variant = api.partition(":")
    cases: List[Dict[str, Any]] = []

    def mk(base, extra, fail_first=False, hw=None):
        kw = {}
        if role == "create":
            kw.update({k: base[k] for k in ("number", "time_unit", "max_time")})
        else:
            kw["number"] = base["number"]
        kw.update(extra)
        c = {"part": "requests", "type": T, "role": role, "api": api, "kwargs": kw, "socket": base["socket"],
             "remote": base["remote"]}
        if fail_first:
            c["fail_first"] = True
        if hw:
            c["hw"] = hw
        return c

    if role == "create":
        full = base_points(True)
        few = base_points(False)
        if T == "K":
            for b in full:
                cases.append(mk(b, {}))
            if api in ("create_keep", "create_keep:post"):
                for b in (full if thorough else few):
                    for lp in LOOPS[1:]:
                        for ff in (False, True):
                            if ff and lp[1] < 2:
                                continue
                            cases.append(mk(b, {"min_fidelity_all_at_end": lp[0], "max_tries": lp[1]}, fail_first=ff))
            if api in ("create_keep", "create_keep_with_info", "create_keep:sequential"):
                for b in few:
                    cases.append(mk(b, {}, hw="nv"))
        else:
            deprecated = name == "create"
            core = meas_specs(T, "core")
            if deprecated and T == "R":
                # create(tp=R) forwards only basis_local / random_basis_local (rotations are documented "for M-type requests")
                core = [s for s in core if not any(k.startswith("rotations_") for k in s)]
            # the deprecated create(tp=..) only forwards to create_measure / create_rsp: whole product in the thorough tier
            for b in (full if (thorough or not deprecated) else few):
                for s in core:
                    cases.append(mk(b, s))
            if not deprecated or T == "M":
                wide = thorough and not deprecated
                for b in (full if wide else few):
                    for s in meas_specs(T, "sweep"):
                        cases.append(mk(b, s))
                for b in (full if wide else few[:2]):
                    for s in meas_specs(T, "cube2"):
                        cases.append(mk(b, s))
            # measure-directly and state-preparation requests keep no qubit on the creating side: more pairs than the
            # application has qubits is a valid request
            for b in full:
                if b["number"] > 2 and not deprecated:
                    c = mk(b, {})
                    c["max_qubits"] = 2
                    cases.append(c)
            if api == "create_rsp":
                for b in (full if thorough else few):
                    for s in ({}, {"basis_local": "X"}, {"rotations_local": [1, 2, 3]}, {"random_basis_local": "CHSH"}):
                        for lp in LOOPS[1:]:
                            for ff in (False, True):
                                if ff and lp[1] < 2:
                                    continue
                                e = dict(s)
                                e.update({"min_fidelity_all_at_end": lp[0], "max_tries": lp[1]})
                                cases.append(mk(b, e, fail_first=ff))
    else:
        pts = [{"number": n, "socket": s, "remote": r} for n, s, r in itertools.product(NUMBERS, SOCKETS, REMOTES)]
        takes_phi = name in ("recv_keep", "recv_keep_with_info", "recv_measure", "recv_rsp", "recv_rsp_with_info")
        takes_loop = (name in ("recv_keep", "recv_keep_with_info", "recv_rsp", "recv_rsp_with_info") and variant == "") or \
            api == "recv_keep:post"
        for b in pts:
            for phi in ((None, True, False) if takes_phi else (None,)):
                extra = {} if phi is None else {"expect_phi_plus": phi}
                cases.append(mk(b, extra))
                if takes_loop:
                    for lp in LOOPS[1:]:
                        for ff in (False, True):
                            if ff and lp[1] < 2:
                                continue
                            e = dict(extra)
                            e.update({"min_fidelity_all_at_end": lp[0], "max_tries": lp[1]})
                            cases.append(mk(b, e, fail_first=ff))
                if T == "K" and variant in ("", "sequential") and name != "recv_context":
                    cases.append(mk(b, extra, hw="nv"))
    return cases


# ======================================================================================
# Part 2 — results
# ======================================================================================

def script_results(case, attempt: int, pair: int):
    from netqasm.qlink_compat import Basis, BellState, ReturnType
    layout = LAYOUT[(case["type"], case["role"])]
    vals = result_values(case, pair)
    if layout == "K":
        vals[K_IDX["type"]] = ReturnType.OK_K
        vals[K_IDX["bell_state"]] = BellState[BELL_NAMES[vals[K_IDX["bell_state"]]]]
    else:
        vals[M_IDX["type"]] = ReturnType.OK_M
        vals[M_IDX["bell_state"]] = BellState[BELL_NAMES[vals[M_IDX["bell_state"]]]]
        vals[M_IDX["measurement_basis"]] = Basis[MEAS_BASIS_NAMES[vals[M_IDX["measurement_basis"]]]]
    return response(layout, vals)


def result_values(case, pair: int) -> List[int]:
    """Wire (integer) value of every field of pair `pair`'s response, in the order of K_FIELDS / M_FIELDS.
    Enum positions hold the index into BELL_NAMES / MEAS_BASIS_NAMES == the wire value by this module's tables."""
    layout = LAYOUT[(case["type"], case["role"])]
    fields = K_FIELDS if layout == "K" else M_FIELDS
    rid = NODE[case["remote"]]
    shift = case.get("shift", 0)
    vals: List[int] = []
    for k, f in enumerate(fields):
        v = 1000 * pair + 10 * k + 1
        if f == "type":
            v = RETURN_TYPE_VALUE["OK_" + layout]
        elif f == "directionality_flag":
            v = 0 if case["role"] == "create" else 1
        elif f == "purpose_id":
            v = purpose_of(rid, case["socket"])
        elif f == "remote_node_id":
            v = rid
        elif f == "bell_state":
            name = "PHI_PLUS" if case.get("bell") == "phi_plus" else BELL_NAMES[(pair + shift) % 4]
            v = BELL_VALUE[name]
            assert BELL_NAMES[v] == name
        elif f == "measurement_basis":
            v = (pair + shift) % 5
        elif f == "measurement_outcome" and case.get("outcomes") == "bits":
            v = (pair + shift + (shift >> 1)) % 2
        vals.append(v)
    return vals


def _read(fut) -> Any:
    """Value of a host-side future after the flush (None if undefined)."""
    try:
        v = fut.value
    except Exception as exc:  # noqa
        _guard(exc)
        return f"<{type(exc).__name__}: {exc}>"
    return v


def run_result_case(case, part) -> None:
    from netqasm.qlink_compat import BellState
    T, role = case["type"], case["role"]
    layout = LAYOUT[(T, role)]
    fp = f"results/{T}/{role}/"
    part["evals"] += 1
    part["distinct"] += 1
    ctrl, conn, h, d, err = execute(case, script_results)
    if err is not None:
        add_violation(part, fp + err[0], err[1], case)
        return
    number = case["kwargs"].get("number", 1)
    count(part, f"res/{T}/{role}")
    count(part, f"res-api/{case['api']}")
    if len(d.delivered) != number or d.queue:
        add_violation(part, fp + "pairs-consumed", f"{len(d.delivered)} pair(s) were awaited, {number} expected", case)
        return
    # wire (integer) values of what was actually delivered, pair by pair
    wire = [[x.value if isinstance(x, Enum) else x for x in resp] for (_a, _p, resp) in d.delivered]
    bell_names = [resp[-1].name for (_a, _p, resp) in d.delivered]      # bell_state is the last field of both layouts
    idx = K_IDX if layout == "K" else M_IDX

    def bad(handle: str, p: int, got, want, field: str):
        add_violation(part, fp + handle, f"{handle} of pair {p} reads {got!r}; field '{field}' of pair {p}'s response is {want!r}",
                      case, {"pair": p, "responses": wire, "field_order": list(K_FIELDS if layout == "K" else M_FIELDS)})

    def same(got, want) -> bool:
        return isinstance(got, int) and not isinstance(got, bool) and int(got) == want

    # ---- qubits ----------------------------------------------------------------------
    if "qubits" in h:
        qubits = h["qubits"]
        if len(qubits) != number:
            add_violation(part, fp + "qubit-count", f"{len(qubits)} qubit handle(s) for {number} pair(s)", case)
            return
        um = ctrl.executor._qubit_unit_modules[conn.app_id]
        for p, q in enumerate(qubits):
            info = q.entanglement_info
            if info is None or tuple(getattr(info, "_fields", ())) != K_FIELDS:
                add_violation(part, fp + "Qubit.entanglement_info", "entanglement_info is not a LinkLayerOKTypeK of futures", case,
                              {"got": repr(info)})
                continue
            for f in K_FIELDS:
                got = _read(getattr(info, f))
                if not same(got, wire[p][K_IDX[f]]):
                    bad("Qubit.entanglement_info." + f, p, got, wire[p][K_IDX[f]], f)
                count(part, "handle/Qubit.entanglement_info." + f)
            # the qubit handle of pair p denotes the qubit the link layer delivered for pair p
            vid = q.qubit_id
            if case.get("tag"):
                phys = um[vid] if 0 <= vid < len(um) else None
                ok = False
                if phys is not None and ctrl.executor.qs.has(phys):
                    t = tag_angle(p)
                    fid = ctrl.executor.qs.fidelity_with([phys], [math.cos(t), math.sin(t)])
                    ok = abs(fid - 1) < 1e-9
                if not ok:
                    bad("Qubit(state)", p, f"virtual id {vid} -> physical {phys}", f"state tagged for pair {p}", "logical_qubit_id")
                count(part, "handle/Qubit(state)")
            else:
                phys = um[vid] if 0 <= vid < len(um) else None
                if phys != wire[p][K_IDX["logical_qubit_id"]]:
                    bad("Qubit", p, f"virtual id {vid} -> physical {phys}", wire[p][K_IDX["logical_qubit_id"]], "logical_qubit_id")
                count(part, "handle/Qubit")
            try:
                rn = q.remote_entangled_node
            except Exception as exc:  # noqa
                _guard(exc)
                rn = f"<{type(exc).__name__}: {exc}>"
            if rn != simctl.node_name_of(case["remote"]):
                bad("Qubit.remote_entangled_node", p, rn, simctl.node_name_of(case["remote"]), "remote_node_id")
            count(part, "handle/Qubit.remote_entangled_node")
    # ---- EprKeepResult ---------------------------------------------------------------
    if "keep" in h:
        infos = h["keep"]
        if len(infos) != number:
            add_violation(part, fp + "EprKeepResult-count", f"{len(infos)} EprKeepResult(s) for {number} pair(s)", case)
            return
        for p, r in enumerate(infos):
            for attr, f in (("qubit_id", "logical_qubit_id"), ("remote_node_id", "remote_node_id"),
                            ("generation_duration", "goodness"), ("raw_bell_state", "bell_state")):
                got = _read(getattr(r, attr))
                if not same(got, wire[p][K_IDX[f]]):
                    bad("EprKeepResult." + attr, p, got, wire[p][K_IDX[f]], f)
                count(part, "handle/EprKeepResult." + attr)
            try:
                bs = r.bell_state
            except BaseException as exc:  # noqa
                bs = f"<{type(exc).__name__}: {exc}>"
            want = bell_names[p]
            if not (isinstance(bs, BellState) and bs.name == want):
                bad("EprKeepResult.bell_state", p, bs, want, "bell_state")
            count(part, "handle/EprKeepResult.bell_state")
    # ---- EprMeasureResult ------------------------------------------------------------
    if "meas" in h:
        res = h["meas"]
        if len(res) != number:
            add_violation(part, fp + "EprMeasureResult-count", f"{len(res)} EprMeasureResult(s) for {number} pair(s)", case)
            return
        for p, r in enumerate(res):
            for attr, f in (("raw_measurement_outcome", "measurement_outcome"), ("remote_node_id", "remote_node_id"),
                            ("generation_duration", "goodness"), ("raw_bell_state", "bell_state")):
                got = _read(getattr(r, attr))
                if not same(got, wire[p][M_IDX[f]]):
                    bad("EprMeasureResult." + attr, p, got, wire[p][M_IDX[f]], f)
                count(part, "handle/EprMeasureResult." + attr)
            try:
                bs = r.bell_state
            except BaseException as exc:  # noqa
                bs = f"<{type(exc).__name__}: {exc}>"
            want = bell_names[p]
            if not (isinstance(bs, BellState) and bs.name == want):
                bad("EprMeasureResult.bell_state", p, bs, want, "bell_state")
            count(part, "handle/EprMeasureResult.bell_state")
            # measurement_outcome where no post-processing applies (C10 owns the post-processing)
            post = role == "recv" and case["kwargs"].get("expect_phi_plus", True)
            if (not post) or (want == "PHI_PLUS" and case.get("outcomes") == "bits"):
                try:
                    mo = r.measurement_outcome
                except BaseException as exc:  # noqa
                    mo = f"<{type(exc).__name__}: {exc}>"
                if not same(mo, wire[p][M_IDX["measurement_outcome"]]):
                    bad("EprMeasureResult.measurement_outcome", p, mo, wire[p][M_IDX["measurement_outcome"]], "measurement_outcome")
                count(part, "handle/EprMeasureResult.measurement_outcome" + ("(post,phi+)" if post else ""))
    _ = idx


def result_cases(T: str, role: str, api: str, tier: str) -> List[Dict[str, Any]]:
    name, _, variant = api.partition(":")
    layout = LAYOUT[(T, role)]
    cases = []
    takes_phi = name in ("recv_keep", "recv_keep_with_info", "recv_measure", "recv_rsp", "recv_rsp_with_info")
    takes_loop = api in ("create_keep", "recv_keep", "recv_keep_with_info", "create_rsp", "recv_rsp", "recv_rsp_with_info")
    for n, s, r, shift in itertools.product(NUMBERS, SOCKETS, REMOTES, range(4)):
        for phi in ((None, True, False) if takes_phi else (None,)):
            for loop in ((False, True) if takes_loop else (False,)):
                for outcomes in (("distinct", "bits") if layout == "M" else ("distinct",)):
                    for bell in (("varied", "phi_plus") if (layout == "M" and outcomes == "bits") else ("varied",)):
                        for hw in ((None, "nv") if (layout == "K" and T == "K") else (None,)):
                            kw: Dict[str, Any] = {"number": n}
                            if phi is not None:
                                kw["expect_phi_plus"] = phi
                            if loop:
                                kw.update({"min_fidelity_all_at_end": 50, "max_tries": 3})
                            c = {"part": "results", "type": T, "role": role, "api": api, "kwargs": kw, "socket": s, "remote": r,
                                 "shift": shift, "outcomes": outcomes, "bell": bell}
                            if hw:
                                # after the NV moves the pair is identified by a tagged state; Bell corrections would
                                # alter the tag, so the receiving role is explored without them
                                if role == "recv" and kw.get("expect_phi_plus", True):
                                    continue
                                c["hw"] = hw
                                c["tag"] = True
                            cases.append(c)
                            if shift < 2 and not loop:
                                cases.append(dict(c, fmt="qlink_1_0"))     # the link layer answers in qlink-interface 1.0 objects
    return cases


# ======================================================================================
# Shards, run, replay
# ======================================================================================

CHUNK = 800


def cases_of(part_name: str, T: str, role: str, api: str, tier: str) -> List[Dict[str, Any]]:
    if part_name == "requests":
        return request_cases(T, role, api, tier)
    return result_cases(T, role, api, tier)


PART2_APIS = {
    ("K", "create"): ["create_keep", "create_keep_with_info", "create:K"],
    ("M", "create"): ["create_measure", "create:M"],
    ("R", "create"): ["create_rsp", "create:R"],
    ("K", "recv"): ["recv_keep", "recv_keep_with_info", "recv:K"],
    ("M", "recv"): ["recv_measure", "recv:M"],
    ("R", "recv"): ["recv_rsp", "recv_rsp_with_info", "recv:R"],
}


def shard_fn(shard):
    part_name, T, role, api, tier, lo, hi = shard
    part = new_part()
    cases = cases_of(part_name, T, role, api, tier)[lo:hi]
    fn = run_request_case if part_name == "requests" else run_result_case
    for i, c in enumerate(cases):
        fn(c, part)
        if lo == 0 and i == 0:
            add_sample(part, c)
        if part_name == "requests" and (lo + i) % 7 == 0:
            fn(dict(c, socket_history="used-before-in-another-network"), part)
            count(part, "socket-reused")
    count(part, f"shards/{part_name}")
    return part


def run(ctx):
    selfcheck_basis_table()
    shards = []
    sizes: Dict[str, int] = {}
    for part_name, table in (("requests", APIS), ("results", PART2_APIS)):
        for (T, role), apis in table.items():
            for api in apis:
                n = len(cases_of(part_name, T, role, api, ctx.tier))
                sizes[f"{part_name}/{T}/{role}/{api}"] = n
                chunk = max(CHUNK, n // 64 + 1)      # every shard regenerates its class's case list: keep shards few
                for lo in range(0, n, chunk):
                    shards.append((part_name, T, role, api, ctx.tier, lo, min(n, lo + chunk)))
    shards.sort(key=lambda s: -(s[6] - s[5]))
    ctx.pmap(shard_fn, shards)
    ctx.extra["cases_per_class"] = sizes
    ctx.extra["bounds"] = {"numbers": NUMBERS, "sockets": SOCKETS, "remotes": REMOTES, "max_times": MAX_TIMES,
                           "rotation_component_range": [0, 31], "cube": CUBE, "loops": [list(x) for x in LOOPS[1:]]}
    for (T, role) in APIS:
        ctx.require(f"req/{T}/{role}", 18)
        ctx.require(f"res/{T}/{role}", 18)
    for apis in APIS.values():
        for api in apis:
            ctx.require(f"api/{api}", 1)
    for apis in PART2_APIS.values():
        for api in apis:
            ctx.require(f"res-api/{api}", 1)
    ctx.require("socket-reused", 100)
    ctx.require("socket-registrations", 1000)
    ctx.require("loop/retried", 1)
    ctx.require("loop/single", 1)
    ctx.require("qlink_1_0/converted", 1000)
    for f in K_FIELDS:
        ctx.require("handle/Qubit.entanglement_info." + f, 100)
    for h in ("Qubit", "Qubit(state)", "Qubit.remote_entangled_node", "EprKeepResult.qubit_id", "EprKeepResult.remote_node_id",
              "EprKeepResult.generation_duration", "EprKeepResult.raw_bell_state", "EprKeepResult.bell_state",
              "EprMeasureResult.raw_measurement_outcome", "EprMeasureResult.remote_node_id",
              "EprMeasureResult.generation_duration", "EprMeasureResult.raw_bell_state", "EprMeasureResult.bell_state",
              "EprMeasureResult.measurement_outcome", "EprMeasureResult.measurement_outcome(post,phi+)"):
        ctx.require("handle/" + h, 10)


def replay(case, part):
    selfcheck_basis_table()
    if case.get("part") == "results":
        run_result_case(case, part)
    else:
        run_request_case(case, part)
