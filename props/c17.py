"""C17 — printed assembly parses back to the same instruction.

Deciding step: exhaustive enumeration of (flavour, class, operand valuation) over the
complete per-field lattice and all field pairs over reduced domains, plus all
sequences of length <= 3 over one representative per operand
shape; each printed with str() and parsed by the real text parser with that flavour.
"""
from __future__ import annotations

import itertools
from typing import Any, List

from mc import codec
from mc.report import guard_harness as _guard
from mc.report import add_sample, add_violation, count, new_part
from props.c01 import representatives

LEVEL = "exploration"
RULE = ("flavour x class x (every value of each operand field against two backgrounds + all field pairs over reduced "
        "domains): parse(str(instr)) must give one instruction of the same class with equal operands; sequences of length "
        "<=3 over one representative per shape: text -> subroutine -> bytes -> decoded -> printed -> parsed is stable; per class: print / change operands in place / print again, "
        "and parse twice / change the first result in place / parse again; "
        "distinct = distinct (flavour, mnemonic, leaves); non-trivial = some operand field non-zero")
ASSUMPTIONS = ["operands in range; text is produced by str(instruction) exactly as the repository prints it"]

FLAVOURS = ["vanilla", "nv", "reids"]
HEADER = "# NETQASM 1.2\n# APPID 7\n"


def check_instr(flav: str, mn: str, lv, part, classes=None) -> None:
    from netqasm.lang.parsing.text import parse_text_subroutine
    classes = classes or {c.mnemonic: c for c in codec.live_classes(flav)}
    cls = classes[mn]
    case = {"flavour": flav, "mnemonic": mn, "leaves": [list(x) if isinstance(x, tuple) else x for x in lv]}
    instr = codec.make_instr(cls, codec.live_operand_kinds(cls), lv)
    text = str(instr)
    case["text"] = text
    try:
        sub = parse_text_subroutine(HEADER + text + "\n", flavour=codec.flavour(flav))
    except Exception as exc:
        _guard(exc)
        add_violation(part, f"unparsable/{flav}/{mn}", f"{flav}: printed {mn!r} instruction does not parse: "
                      f"{type(exc).__name__}: {exc}", case)
        return
    got = sub.instructions
    if len(got) != 1:
        add_violation(part, f"count/{flav}/{mn}", f"{flav}: printed {mn} parses to {len(got)} instructions", case,
                      {"got": [str(g) for g in got]})
    elif type(got[0]) is not cls:
        add_violation(part, f"class/{flav}/{mn}", f"{flav}: printed {mn} parses as {type(got[0]).__name__}", case)
    elif got[0] != instr:
        add_violation(part, f"operands/{flav}/{mn}", f"{flav}: printed {mn} parses with different operands", case,
                      {"got": str(got[0])})
    if sub.app_id != 7 or tuple(sub.netqasm_version) != (1, 2):
        add_violation(part, f"header/{flav}", "header values change through the text parser", case)


def shard_instr(shard):
    _, flav, mn = shard
    part = new_part()
    classes = {c.mnemonic: c for c in codec.live_classes(flav)}
    lk = codec.wiretable.leaf_kinds(codec.live_operand_kinds(classes[mn]))
    seen = set()
    for lv in itertools.chain(codec.per_field_lattice(lk), codec.pairs_lattice(lk)):
        if lv in seen:
            continue
        seen.add(lv)
        part["evals"] += 1
        part["distinct"] += 1 if any(v not in (0, (0, 0)) for v in lv) else 0
        check_instr(flav, mn, lv, part, classes)
    count(part, f"class-explored/{flav}")
    if any(isinstance(v, int) and v < 0 for lv in seen for v in lv):
        count(part, "negative-integers")
    if mn in ("wait_all", "store", "jmp"):
        lv = tuple(codec.background_high(lk))
        add_sample(part, {"flavour": flav, "text": str(codec.make_instr(classes[mn], codec.live_operand_kinds(classes[mn]), lv))})
    return part


def check_sequence(flav: str, seq, part) -> None:
    from netqasm.lang.parsing.binary import deserialize
    from netqasm.lang.parsing.text import parse_text_subroutine
    classes = {c.mnemonic: c for c in codec.live_classes(flav)}
    instrs = [codec.make_instr(classes[m], codec.live_operand_kinds(classes[m]), lv) for m, lv in seq]
    text = HEADER + "".join(str(i) + "\n" for i in instrs)
    case = {"flavour": flav, "sequence": [[m, [list(x) if isinstance(x, tuple) else x for x in lv]] for m, lv in seq], "text": text}
    f = codec.flavour(flav)
    try:
        sub1 = parse_text_subroutine(text, flavour=f)
        dec = deserialize(bytes(sub1), f)
        text2 = HEADER + "".join(str(i) + "\n" for i in dec.instructions)
        sub2 = parse_text_subroutine(text2, flavour=f)
    except Exception as exc:
        _guard(exc)
        add_violation(part, f"sequence-raises/{flav}", f"text->binary->text raised {type(exc).__name__}: {exc}", case)
        return
    if sub1.instructions != instrs:
        add_violation(part, f"sequence-parse/{flav}", "a printed sequence parses to a different instruction list", case,
                      {"got": [str(i) for i in sub1.instructions]})
    elif text2 != text or sub2.instructions != sub1.instructions or bytes(sub2) != bytes(sub1):
        add_violation(part, f"sequence-unstable/{flav}", "text -> binary -> text is not stable", case, {"text2": text2})


def shard_seq(shard):
    _, flav, first, maxlen = shard
    part = new_part()
    reps = representatives(flav)
    seqs = [[reps[first]]] + [[reps[first], b] for b in reps]
    if maxlen >= 3:
        seqs += [[reps[first], b, c] for b in reps for c in reps]
    if first == 0:
        seqs.append([])
    for s in seqs:
        part["evals"] += 1
        part["distinct"] += 1
        check_sequence(flav, s, part)
    count(part, "sequences", len(seqs))
    return part


def shard_coexist(shard):
    """Flavour objects built in every order must each still parse their own printed instructions to their own classes."""
    from netqasm.lang.instr import flavour as fl
    from netqasm.lang.parsing.text import parse_text_subroutine
    part = new_part()
    ctors = {"vanilla": fl.VanillaFlavour, "nv": fl.NVFlavour, "reids": fl.REIDSFlavour}
    for order in itertools.permutations(ctors):
        made = {name: ctors[name]() for name in order}
        for name, inst in made.items():
            for cls in fl.CORE_INSTRUCTIONS + list(inst.instrs):
                kinds = codec.live_operand_kinds(cls)
                lv = codec.background_high(codec.wiretable.leaf_kinds(kinds))
                instr = codec.make_instr(cls, kinds, lv)
                part["evals"] += 1
                part["distinct"] += 1
                case = {"flavour": name, "construction_order": list(order), "text": str(instr)}
                try:
                    got = parse_text_subroutine(HEADER + str(instr) + "\n", flavour=inst).instructions
                except Exception as exc:
                    _guard(exc)
                    add_violation(part, f"coexist-unparsable/{name}", f"{type(exc).__name__}: {exc}", case)
                    continue
                if len(got) != 1 or type(got[0]) is not cls or got[0] != instr:
                    add_violation(part, f"coexist-class/{name}/{cls.mnemonic}", f"with flavours constructed in order {order}, the {name} "
                                  f"flavour parses printed {cls.mnemonic} to {type(got[0]).__module__}.{type(got[0]).__name__}", case)
    count(part, "coexist-orders", 6)
    return part


def _mutate_to(instr, fresh) -> bool:
    """change instr's operands in place to those of fresh (as the assembler and the transpiler do); False if immutable"""
    import dataclasses
    from netqasm.lang.operand import ArrayEntry, ArraySlice
    try:
        for fd in dataclasses.fields(type(instr))[3:]:
            cur, new = getattr(instr, fd.name), getattr(fresh, fd.name)
            if isinstance(cur, (ArrayEntry, ArraySlice)):
                for attr in ("address", "index", "start", "stop"):
                    if hasattr(cur, attr):
                        setattr(cur, attr, getattr(new, attr))
            else:
                setattr(instr, fd.name, new)
    except (AttributeError, TypeError):
        return False
    return True


def shard_history(shard):
    """Histories on one object / one text: (a) print, change the operands in place, print again: the second text must parse to
    the CURRENT operands; (b) parse one text twice and change the first result in place: the second result (and a third parse)
    must still be what the text says (no operand objects shared between parses)."""
    from netqasm.lang.parsing.text import parse_text_subroutine
    _, flav = shard
    part = new_part()
    f = codec.flavour(flav)
    for cls in codec.live_classes(flav):
        kinds = codec.live_operand_kinds(cls)
        lk = codec.wiretable.leaf_kinds(kinds)
        if not lk:
            continue
        lo, hi = codec.background_low(lk), codec.background_high(lk)
        case = {"flavour": flav, "mnemonic": cls.mnemonic, "history": True}
        part["evals"] += 2
        part["distinct"] += 2
        try:
            # (a)
            instr, fresh = codec.make_instr(cls, kinds, lo), codec.make_instr(cls, kinds, hi)
            for observe in (str, lambda i: i.debug_str, repr):
                observe(instr)
            if _mutate_to(instr, fresh):
                got = parse_text_subroutine(HEADER + str(instr) + "\n", flavour=f).instructions
                if str(instr) != str(fresh):
                    add_violation(part, f"stale-text-after-mutation/{flav}/{cls.mnemonic}", f"{flav} {cls.mnemonic}: after its operands were "
                                  f"changed in place the instruction prints {str(instr)!r}, which is not its current operands "
                                  f"({str(fresh)!r})", case)
                elif len(got) != 1 or got[0] != fresh:
                    add_violation(part, f"parse-depends-on-history/{flav}/{cls.mnemonic}", f"{flav} {cls.mnemonic}: {str(instr)!r} parses to "
                                  f"{[str(g) for g in got]} after earlier parse results were changed in place", case)
            else:
                count(part, "operands-immutable")
            # (b)
            text = HEADER + str(codec.make_instr(cls, kinds, hi)) + "\n"
            one = parse_text_subroutine(text, flavour=f).instructions
            two = parse_text_subroutine(text, flavour=f).instructions
            if _mutate_to(one[0], codec.make_instr(cls, kinds, lo)):
                three = parse_text_subroutine(text, flavour=f).instructions
                want = codec.make_instr(cls, kinds, hi)
                if two[0] != want or three[0] != want:
                    add_violation(part, f"parses-share-operands/{flav}/{cls.mnemonic}", f"{flav} {cls.mnemonic}: changing the result of one "
                                  "parse in place changes the result of another parse of the same text", case,
                                  {"text": text, "second": str(two[0]), "third": str(three[0])})
        except Exception as exc:
            _guard(exc)
            add_violation(part, f"history-raises/{flav}/{cls.mnemonic}", f"{type(exc).__name__}: {exc}", case)
    count(part, f"histories/{flav}")
    return part


def _dispatch(shard):
    return {"instr": shard_instr, "seq": shard_seq, "coexist": shard_coexist, "history": shard_history}[shard[0]](shard)


def run(ctx):
    shards: List[Any] = [("coexist",)]
    maxlen = 3
    for flav in FLAVOURS:
        for c in codec.live_classes(flav):
            shards.append(("instr", flav, c.mnemonic))
        for i in range(len(representatives(flav))):
            shards.append(("seq", flav, i, maxlen))
        shards.append(("history", flav))
    ctx.pmap(_dispatch, shards)
    for flav in FLAVOURS:
        ctx.require(f"histories/{flav}", 1)
        ctx.require(f"class-explored/{flav}", 30)
    ctx.require("sequences", 300)
    ctx.require("negative-integers", 1)
    ctx.require("coexist-orders", 6)


def replay(case, part):
    if case.get("history"):
        part["violations"].extend(shard_history(("history", case["flavour"]))["violations"])
    elif "construction_order" in case:
        part["violations"].extend(shard_coexist(("coexist",))["violations"])
    elif "sequence" in case:
        seq = [(m, [tuple(x) if isinstance(x, list) else x for x in lv]) for m, lv in case["sequence"]]
        check_sequence(case["flavour"], seq, part)
    else:
        check_instr(case["flavour"], case["mnemonic"], [tuple(x) if isinstance(x, list) else x for x in case["leaves"]], part)
