"""C12 — controller matches entanglement responses to requests under any interleaving.

Explicit-state exploration of ALL interleavings of (a) instruction steps of the real executor
(its generator is advanced one instruction at a time), (b) deliveries of link-layer responses
(per stream in sequence order, across streams in any order, on the receiving side also before
the matching instruction ran) and (c) retries of deferred responses, for hand-written
scenarios of the shape the SDK emits.  States are hashed canonically; every state is checked
against per-state invariants and every quiescent state against a schedule-independent FIFO
reference assignment.
"""
from __future__ import annotations

import json
from typing import Any, Dict, List, Optional, Tuple

from mc import simctl, world
from mc.report import guard_harness as _guard
from mc.report import add_sample, add_violation, count, new_part
from props.c04 import to_real

LEVEL = "model_checking"
RULE = ("per scenario (eleven hand-written and seven emitted by the real SDK: recv_keep, create_keep+recv_keep, two sockets, "
        "recv/create_measure, sequential keep with post routine, NV recv_keep; 1..3 outstanding requests of 1..3 pairs, same/different sockets and remote nodes, create and receive "
        "roles mixed, keep and measure types, a target virtual qubit still allocated when its response arrives): BFS over all "
        "interleavings of {step one instruction, deliver next response of stream s, retry deferred responses}; state = (pc, "
        "blocked flag, registers, arrays, request queues with tot/left, ordered pending responses, unit module, used set, "
        "per-stream delivered count); distinct = distinct states; non-trivial = every transition")
ASSUMPTIONS = ["link layer delivers the responses of one (remote node, purpose, role) stream in sequence order; a creator-side response "
               "cannot precede the create_epr instruction that causes it; receiver-side responses may arrive at any time",
               "a keep-response names the lowest physical qubit not marked in use by the executor at delivery time",
               "the scripted stack maps purpose id = EPR socket id + 40 (the two must not be confused by the executor)"]

PURPOSE = 40

APP = 0
LOCAL = 0
R = lambda i: ("r", "R", i)
Q = lambda i: ("r", "Q", i)
C = lambda i: ("r", "C", i)
M = lambda i: ("r", "M", i)


# ----------------------------------------------------------------------------- scenario construction
def arr(addr, n):
    return [("set", [R(0), n]), ("array", [R(0), ("addr", addr)])]


def store(addr, idx, val):
    return [("set", [R(0), val]), ("set", [R(1), idx]), ("store", [R(0), ("entry", addr, R(1))])]


def recv(remote, socket, qaddr, raddr):
    out = [("set", [R(0), remote]), ("set", [R(1), socket])]
    if qaddr is None:
        out += [("set", [R(3), raddr]), ("recv_epr", [R(0), R(1), C(0), R(3)])]
    else:
        out += [("set", [R(2), qaddr]), ("set", [R(3), raddr]), ("recv_epr", [R(0), R(1), R(2), R(3)])]
    return out


def create(remote, socket, qaddr, argaddr, raddr, tp, number):
    out = arr(argaddr, 20) + store(argaddr, 0, tp) + store(argaddr, 1, number)
    out += [("set", [R(0), remote]), ("set", [R(1), socket]), ("set", [R(3), argaddr]), ("set", [R(4), raddr])]
    if qaddr is None:
        out += [("create_epr", [R(0), R(1), C(0), R(3), R(4)])]
    else:
        out += [("set", [R(2), qaddr]), ("create_epr", [R(0), R(1), R(2), R(3), R(4)])]
    return out


def wait_all(addr, lo, hi):
    return [("set", [R(5), lo]), ("set", [R(6), hi]), ("wait_all", [("slice", addr, R(5), R(6))])]


def wait_any(addr, lo, hi):
    return [("set", [R(5), lo]), ("set", [R(6), hi]), ("wait_any", [("slice", addr, R(5), R(6))])]


def wait_single(addr, idx):
    return [("set", [R(5), idx]), ("wait_single", [("entry", addr, R(5))])]


def qids(addr, ids):
    out = arr(addr, len(ids))
    for i, v in enumerate(ids):
        out += store(addr, i, v)
    return out


def use(v):
    return [("set", [Q(0), v]), ("h", [Q(0)])]


class Req:
    def __init__(self, role, remote, socket, tp, number, raddr, qaddr, vids):
        self.role, self.remote, self.socket, self.tp, self.number = role, remote, socket, tp, number
        self.raddr, self.qaddr, self.vids = raddr, qaddr, vids

    @property
    def stream(self):
        return (self.remote, self.socket, self.role)


def scenarios() -> Dict[str, Tuple[List, List[Req], int]]:
    """name -> (program, requests in program order, unit module size)"""
    S: Dict[str, Tuple[List, List[Req], int]] = {}
    # S1: one receive request, two keep pairs, wait_all, use, return
    p = arr(0, 20) + qids(1, [0, 1]) + recv(1, 0, 1, 0) + wait_all(0, 0, 20) + use(0) + use(1) + [("ret_arr", [("addr", 0)])]
    S["recv-2-keep"] = (p, [Req("recv", 1, 0, "K", 2, 0, 1, [0, 1])], 3)
    # S2: two receive requests on the same socket (2 pairs, then 1 pair): FIFO to the oldest
    p = (arr(0, 20) + qids(1, [0, 1]) + recv(1, 0, 1, 0) + arr(2, 10) + qids(3, [2]) + recv(1, 0, 3, 2)
         + wait_all(2, 0, 10) + wait_all(0, 0, 20) + use(2) + [("ret_arr", [("addr", 0)]), ("ret_arr", [("addr", 2)])])
    S["recv-2+1-same-socket"] = (p, [Req("recv", 1, 0, "K", 2, 0, 1, [0, 1]), Req("recv", 1, 0, "K", 1, 2, 3, [2])], 3)
    # S3: create (2 pairs) and receive (1 pair) with the same remote node and socket: roles must not mix
    p = (arr(0, 20) + qids(1, [0, 1]) + create(1, 0, 1, 4, 0, 0, 2) + arr(2, 10) + qids(3, [2]) + recv(1, 0, 3, 2)
         + wait_single(2, 9) + wait_all(0, 0, 20) + use(0) + [("ret_arr", [("addr", 0)]), ("ret_arr", [("addr", 2)])])
    S["create-2+recv-1"] = (p, [Req("create", 1, 0, "K", 2, 0, 1, [0, 1]), Req("recv", 1, 0, "K", 1, 2, 3, [2])], 3)
    # S4: two sockets, one pair / two pairs, wait_any on the first
    p = (arr(0, 10) + qids(1, [0]) + recv(1, 0, 1, 0) + arr(2, 20) + qids(3, [1, 2]) + recv(1, 1, 3, 2)
         + wait_any(2, 0, 20) + wait_all(0, 0, 10) + wait_all(2, 0, 20) + use(1) + [("ret_arr", [("addr", 2)])])
    S["recv-two-sockets"] = (p, [Req("recv", 1, 0, "K", 1, 0, 1, [0]), Req("recv", 1, 1, "K", 2, 2, 3, [1, 2])], 3)
    # S5: measure-directly receive (2 pairs) and keep receive (1 pair) on different sockets
    p = (arr(0, 20) + recv(1, 0, None, 0) + arr(2, 10) + qids(3, [0]) + recv(1, 1, 3, 2)
         + wait_all(0, 0, 20) + wait_all(2, 0, 10) + use(0) + [("ret_arr", [("addr", 0)])])
    S["recv-measure-2+keep-1"] = (p, [Req("recv", 1, 0, "M", 2, 0, None, []), Req("recv", 1, 1, "K", 1, 2, 3, [0])], 2)
    # S6: the target virtual qubit is still allocated when the response may arrive and is freed later
    p = ([("set", [Q(0), 0]), ("qalloc", [Q(0)]), ("init", [Q(0)])] + arr(0, 10) + qids(1, [0]) + recv(1, 0, 1, 0)
         + use(0) + [("set", [Q(0), 0]), ("qfree", [Q(0)])] + wait_all(0, 0, 10) + use(0) + [("ret_arr", [("addr", 0)])])
    S["target-busy-then-freed"] = (p, [Req("recv", 1, 0, "K", 1, 0, 1, [0])], 2)
    # S6b: the same with the target at the HIGHEST virtual id of the unit module (boundary of the "is it allocated" test)
    p = ([("set", [Q(0), 2]), ("qalloc", [Q(0)]), ("init", [Q(0)])] + arr(0, 10) + qids(1, [2]) + recv(1, 0, 1, 0)
         + use(2) + [("set", [Q(0), 2]), ("qfree", [Q(0)])] + wait_all(0, 0, 10) + use(2) + [("ret_arr", [("addr", 0)])])
    S["target-busy-highest-id"] = (p, [Req("recv", 1, 0, "K", 1, 0, 1, [2])], 3)
    # S7: different remote nodes on the same socket id, create measure (1) + recv keep (2)
    p = (arr(0, 10) + create(2, 0, None, 4, 0, 1, 1) + arr(2, 20) + qids(3, [0, 1]) + recv(1, 0, 3, 2)
         + wait_all(2, 10, 20) + wait_all(0, 0, 10) + wait_all(2, 0, 10) + use(1) + [("ret_arr", [("addr", 2)])])
    S["two-remotes-create-M+recv-K"] = (p, [Req("create", 2, 0, "M", 1, 0, None, []), Req("recv", 1, 0, "K", 2, 2, 3, [0, 1])], 2)
    # S8: three outstanding receive requests on one socket, 1 + 2 + 1 pairs, a qalloc of the program in between
    p = (arr(0, 10) + qids(1, [0]) + recv(1, 0, 1, 0) + arr(2, 20) + qids(3, [1, 2]) + recv(1, 0, 3, 2)
         + [("set", [Q(0), 3]), ("qalloc", [Q(0)])]
         + arr(4, 10) + qids(5, [4]) + recv(1, 0, 5, 4) + wait_all(4, 0, 10) + wait_all(2, 0, 20) + wait_all(0, 0, 10) + use(4))
    S["recv-1+2+1-with-qalloc"] = (p, [Req("recv", 1, 0, "K", 1, 0, 1, [0]), Req("recv", 1, 0, "K", 2, 2, 3, [1, 2]),
                                       Req("recv", 1, 0, "K", 1, 4, 5, [4])], 5)
    # S9: create keep 3 pairs, wait per pair (wait_single on each bell-state field), as the sequential SDK code does
    p = (arr(0, 30) + qids(1, [0, 1, 2]) + create(1, 1, 1, 4, 0, 0, 3) + wait_all(0, 0, 10) + use(0) + wait_all(0, 10, 20) + use(1)
         + wait_all(0, 20, 30) + use(2) + [("ret_arr", [("addr", 0)])])
    S["create-3-wait-per-pair"] = (p, [Req("create", 1, 1, "K", 3, 0, 1, [0, 1, 2])], 3)
    # S10: two receive requests that name the SAME qubit-id array; the program stores another virtual id in it between the two
    # (the ids of a request are those in the array when its pair arrives, not those seen by an earlier request)
    p = (arr(0, 10) + qids(1, [0]) + recv(1, 0, 1, 0) + wait_all(0, 0, 10) + use(0) + store(1, 0, 1) + arr(2, 10) + recv(1, 0, 1, 2)
         + wait_all(2, 0, 10) + use(1) + [("ret_arr", [("addr", 0)]), ("ret_arr", [("addr", 2)])])
    S["recv-1+1-qid-array-reused"] = (p, [Req("recv", 1, 0, "K", 1, 0, 1, [0]), Req("recv", 1, 0, "K", 1, 2, 1, [1])], 3)
    # S11: the same with create: sequential single-pair creates through one reused id array (as a loop over pairs does)
    p = (arr(0, 10) + qids(1, [0]) + create(1, 0, 1, 4, 0, 0, 1) + wait_all(0, 0, 10) + use(0) + store(1, 0, 2) + arr(2, 10)
         + create(1, 0, 1, 5, 2, 0, 1) + wait_all(2, 0, 10) + use(2) + [("ret_arr", [("addr", 0)]), ("ret_arr", [("addr", 2)])])
    S["create-1+1-qid-array-reused"] = (p, [Req("create", 1, 0, "K", 1, 0, 1, [0]), Req("create", 1, 0, "K", 1, 2, 1, [2])], 3)
    return S


# ----------------------------------------------------------------------------- scenarios emitted by the real SDK
_SDK_CACHE: Dict[str, Any] = {}


def _sdk_program_cached(name):
    if name not in _SDK_CACHE:
        build, rlist, size, nv = SDK_SCENARIOS[name]
        _SDK_CACHE[name] = _sdk_program(build, nv)
    return _SDK_CACHE[name]


def _sdk_program(build, hw_nv=False):
    """Builds a host program with the real SDK (no controller attached) and returns the neutral form of the one
    subroutine it flushes."""
    from mc import refvm
    from netqasm.sdk.build_types import GenericHardwareConfig, NVHardwareConfig
    from netqasm.sdk.epr_socket import EPRSocket
    from props import c16
    epr0 = EPRSocket("bob", epr_socket_id=0)
    epr1 = EPRSocket("bob", epr_socket_id=1)
    conn = c16._Capture.make(epr_sockets=[epr0, epr1], hardware_config=NVHardwareConfig(5) if hw_nv else GenericHardwareConfig(5))
    build(conn, epr0, epr1)
    conn.flush()
    assert len(conn.subs) == 1
    return refvm.program_from_subroutine(conn.subs[0])


def _post_measure(c, q, pair):
    q.H()
    q.measure()


SDK_SCENARIOS = {
    # name: (builder, [(role, remote, socket, type, number)], unit module size, nv hardware)
    "sdk-recv_keep-2": (lambda c, e0, e1: e0.recv_keep(2), [("recv", 1, 0, "K", 2)], 5, False),
    "sdk-create_keep-1+recv_keep-1": (lambda c, e0, e1: (e0.create_keep(1), e0.recv_keep(1)), [("create", 1, 0, "K", 1), ("recv", 1, 0, "K", 1)], 5, False),
    "sdk-recv_keep-1-two-sockets": (lambda c, e0, e1: (e0.recv_keep(1), e1.recv_keep(1)), [("recv", 1, 0, "K", 1), ("recv", 1, 1, "K", 1)], 5, False),
    "sdk-recv_measure-2": (lambda c, e0, e1: e0.recv_measure(2), [("recv", 1, 0, "M", 2)], 5, False),
    "sdk-create_measure-2": (lambda c, e0, e1: e0.create_measure(2), [("create", 1, 0, "M", 2)], 5, False),
    "sdk-recv_keep-seq-post-2": (lambda c, e0, e1: e0.recv_keep(2, sequential=True, post_routine=_post_measure), [("recv", 1, 0, "K", 2)], 5, False),
    "sdk-recv_keep-2-nv": (lambda c, e0, e1: e0.recv_keep(2), [("recv", 1, 0, "K", 2)], 5, True),
}


# ----------------------------------------------------------------------------- world
class World:
    def __init__(self, name: str):
        from netqasm.lang.subroutine import Subroutine
        world.reset()
        if name in SDK_SCENARIOS:
            build, rlist, size, nv = SDK_SCENARIOS[name]
            prog = _sdk_program_cached(name)
            world.reset()
            reqs = [Req(role, remote, sock, tp, n, None, None, None) for role, remote, sock, tp, n in rlist]
        else:
            prog, reqs, size = scenarios()[name]
        self.name, self.prog, self.reqs = name, prog, reqs
        self.sequential_reuse = name == "sdk-recv_keep-seq-post-2"
        self.ex = simctl.SimExecutor(name="ctrl", node_id=LOCAL, horizon=2000)
        self.stack = simctl.ScriptedStack()
        self.stack.PURPOSE_OFFSET = PURPOSE      # purpose ids differ from socket ids: requests must be filed under the purpose id
        self.ex.network_stack = self.stack
        self.ex.init_new_application(app_id=APP, max_qubits=size)
        self.ex.poll_horizon = 10 ** 9
        self.issued: List[Tuple[str, Any]] = []
        self.stack.on_request = lambda kind, data: self.issued.append((kind, data))
        self.ex.step_hook = self._hook
        self.ex.on_wait = self._wait
        sub = Subroutine(instructions=to_real(prog), app_id=APP, netqasm_version=(0, 0))
        self.gen = self.ex.execute_subroutine(sub)
        self.sid = 0
        self.finished = False
        self.blocked = False
        self.fault: Optional[str] = None
        self.delivered: Dict[Tuple, int] = {}
        self.responses: List[Dict[str, Any]] = []       # every response ever delivered, in delivery order
        self.seq = 0
        # advance to the first scheduling point
        self._resume()
        self._resolve()

    def _hook(self, sid, cmd):
        yield ("instr",)

    def _wait(self):
        yield ("blocked",)

    def _resolve(self):
        """fills in the array addresses / virtual ids of requests whose instruction has executed (SDK scenarios)"""
        for j, req in enumerate(self.reqs):
            if req.raddr is not None or len(self.issued) <= j:
                continue
            qs = self.ex._epr_create_requests if req.role == "create" else self.ex._epr_recv_requests
            lst = qs.get((req.remote, req.socket + PURPOSE)) or []
            if not lst:
                continue
            d = lst[-1]
            req.raddr = d.ent_results_array_address
            req.qaddr = d.q_array_address
            if req.tp == "K" and d.q_array_address is not None:
                req.vids = list(self.ex._app_arrays[APP][d.q_array_address, :])
            else:
                req.vids = []

    def _resume(self):
        try:
            what = next(self.gen)
            while what is None or (isinstance(what, tuple) and what[0] not in ("instr", "blocked")):
                what = next(self.gen)
            self.blocked = what[0] == "blocked"
        except StopIteration:
            self.finished = True
            self.blocked = False
        except simctl.Horizon:
            self.fault = "horizon"
            self.finished = True
        except Exception as exc:
            _guard(exc)
            self.fault = f"{type(exc).__name__}: {(str(exc).splitlines() or [""])[0][:160]}"
            self.finished = True

    @property
    def pc(self) -> int:
        return self.ex._program_counters.get(self.sid, -1) if not self.finished else len(self.prog)

    # ---- streams -------------------------------------------------------------------
    def stream_requests(self, stream) -> List[Tuple[int, Req]]:
        return [(i, r) for i, r in enumerate(self.reqs) if r.stream == stream]

    def issued_count(self, req_index: int) -> bool:
        """has the instruction of request #req_index executed?"""
        return len(self.issued) > req_index

    def next_response(self, stream) -> Optional[Tuple[int, int]]:
        """(request index, pair index) of the next response of this stream, or None when exhausted"""
        n = self.delivered.get(stream, 0)
        for i, r in self.stream_requests(stream):
            if n < r.number:
                return i, n
            n -= r.number
        return None

    def enabled(self) -> List[Tuple]:
        ev: List[Tuple] = []
        if not self.finished:
            ev.append(("step",))
        for stream in sorted({r.stream for r in self.reqs}):
            nr = self.next_response(stream)
            if nr is None:
                continue
            i, k = nr
            if stream[2] == "create" and not self.issued_count(i):
                continue           # a creator-side response cannot precede its create_epr instruction
            ev.append(("deliver",) + stream)
        if self.ex._pending_epr_responses:
            ev.append(("retry",))
        return ev

    def apply(self, ev: Tuple) -> None:
        from netqasm.qlink_compat import BellState, LinkLayerOKTypeK, LinkLayerOKTypeM, ReturnType
        if ev[0] == "step":
            self._resume()
            self._resolve()
            return
        if ev[0] == "retry":
            self._guard(self.ex._handle_pending_epr_responses)
            return
        stream = tuple(ev[1:])
        i, k = self.next_response(stream)
        req = self.reqs[i]
        self.delivered[stream] = self.delivered.get(stream, 0) + 1
        self.seq += 1
        flag = 0 if req.role == "create" else 1
        uid = 100 * (i + 1) + k          # unique tag of (request, pair): create_id/sequence/goodness derive from it
        if req.tp == "K":
            used = self.ex._used_physical_qubit_addresses
            phys = 0
            while phys in used:
                phys += 1
            resp = LinkLayerOKTypeK(type=ReturnType.OK_K, create_id=uid, logical_qubit_id=phys, directionality_flag=flag,
                                    sequence_number=1000 + uid, purpose_id=req.socket + PURPOSE, remote_node_id=req.remote, goodness=2000 + uid,
                                    goodness_time=3000 + uid, bell_state=BellState(k % 4))
        else:
            resp = LinkLayerOKTypeM(type=ReturnType.OK_M, create_id=uid, measurement_outcome=k % 2, measurement_basis=0,
                                    directionality_flag=flag, sequence_number=1000 + uid, purpose_id=req.socket + PURPOSE,
                                    remote_node_id=req.remote, goodness=2000 + uid, bell_state=BellState((k + 1) % 4))
        fields = [e.value if hasattr(e, "value") else e for e in resp]
        self.responses.append({"request": i, "pair": k, "fields": fields, "phys": fields[2] if req.tp == "K" else None, "type": req.tp})
        self._guard(lambda: self.ex._handle_epr_response(resp))

    def _guard(self, fn):
        try:
            fn()
        except RecursionError:
            self.fault = "RecursionError in response handling"
        except Exception as exc:
            _guard(exc)
            self.fault = f"{type(exc).__name__}: {(str(exc).splitlines() or [""])[0][:160]}"

    # ---- observation ---------------------------------------------------------------------
    def snapshot(self) -> Dict[str, Any]:
        ex = self.ex
        snap = ex.classical_snapshot(APP)
        um = list(ex._qubit_unit_modules[APP])
        queues = {}
        for name, qs in (("create", ex._epr_create_requests), ("recv", ex._epr_recv_requests)):
            for key, lst in sorted(qs.items()):
                if lst:
                    queues[f"{name}:{key[0]}:{key[1]}"] = [[d.ent_results_array_address, d.tot_pairs, d.pairs_left] for d in lst]
        return {"pc": self.pc, "blocked": self.blocked, "finished": self.finished, "fault": self.fault,
                "regs": snap["regs"], "arrays": snap["arrays"], "shared_arrays": snap["shared_arrays"],
                "unit_module": um, "used": sorted(ex._used_physical_qubit_addresses), "queues": queues,
                "pending": [r.create_id for r in ex._pending_epr_responses],
                "delivered": {":".join(map(str, k)): v for k, v in sorted(self.delivered.items())}}


def build(name: str, history: List[Tuple]) -> World:
    w = World(name)
    for ev in history:
        w.apply(ev)
    return w


def key(snap) -> str:
    return json.dumps(snap, sort_keys=True)


# ----------------------------------------------------------------------------- invariants
def expected_slices(w: World) -> Dict[Tuple[int, int], List[int]]:
    """FIFO reference: the j-th delivered response of a stream belongs to (request, pair) fixed by program order."""
    return {(r["request"], r["pair"]): r["fields"] for r in w.responses}


def check_state(w: World, before: Optional[Dict[str, Any]], ev: Tuple, snap, case, part) -> bool:
    ok = True

    def bad(fp, what, detail=None):
        nonlocal ok
        ok = False
        add_violation(part, f"{fp}/{w.name}", what, case, detail)

    if w.fault and w.fault != "horizon":
        bad("raises", f"{ev[0]} raised {w.fault}")
        return False
    if w.fault == "horizon":
        bad("does-not-terminate", "program exceeded the instruction horizon")
        return False
    exp = expected_slices(w)
    arrays = snap["arrays"]
    seen_tags = {}
    for i, req in enumerate(w.reqs):
        if req.raddr is None:
            continue
        a = arrays.get(str(req.raddr))
        if a is None:
            continue
        for k in range(req.number):
            sl = a[10 * k: 10 * k + 10]
            if all(v is None for v in sl):
                continue
            if any(v is None for v in sl):
                bad("partial-slice", f"result slice {k} of request {i} is partly defined", {"slice": sl})
                continue
            tag = sl[1]
            if tag in seen_tags:
                bad("response-consumed-twice", f"response {tag} fills two slices: {seen_tags[tag]} and {(i, k)}")
            seen_tags[tag] = (i, k)
            want = exp.get((i, k))
            if want is None or sl != want:
                owner = next((key for key, f in exp.items() if f == sl), None)
                bad("wrong-slice", f"slice {k} of request {i} holds the response that belongs to (request, pair) {owner}",
                    {"slice": sl, "expected": want})
            elif req.tp == "K" and not w.sequential_reuse and not w.name.endswith("-nv"):
                v = req.vids[k]
                if snap["unit_module"][v] != want[2] and not _freed_since(w, i, k):
                    bad("wrong-virtual-qubit", f"pair {k} of request {i} must map virtual qubit {v} to physical {want[2]}",
                        {"unit_module": snap["unit_module"]})
    # request queues
    for qname, lst in snap["queues"].items():
        for addr, tot, left in lst:
            if not 1 <= left <= tot:
                bad("queue-bookkeeping", f"outstanding request with pairs_left={left} of {tot} still queued ({qname})")
            a = arrays.get(str(addr)) or []
            filled = sum(1 for k in range(tot) if any(v is not None for v in a[10 * k:10 * k + 10]))
            if filled != tot - left:
                bad("queue-bookkeeping", f"request at @{addr}: {filled} slices filled but tot-left = {tot - left}")
    # unit module transitions
    if before is not None:
        for v, (p0, p1) in enumerate(zip(before["unit_module"], snap["unit_module"])):
            if p0 != p1:
                if ev[0] in ("deliver", "retry") and p0 is not None:
                    bad("overwrites-allocated-qubit", f"a keep-response changed virtual qubit {v} from physical {p0} to {p1} while it was allocated")
        # wait instructions
        if ev[0] == "step" and not snap["blocked"]:
            pc0 = before["pc"]
            if 0 <= pc0 < len(w.prog) and w.prog[pc0][0].startswith("wait_") and snap["pc"] != pc0:
                mn, ops = w.prog[pc0]
                regs = snap["regs"]
                o = ops[0]
                a = arrays.get(str(o[1]), [])
                if mn == "wait_single":
                    vals = [a[regs[f"R{o[2][2]}"]]]
                    fine = vals[0] is not None
                else:
                    vals = a[regs[f"R{o[2][2]}"]: regs[f"R{o[3][2]}"]]
                    fine = all(v is not None for v in vals) if mn == "wait_all" else any(v is not None for v in vals)
                if not fine:
                    bad("wait-resumed-early", f"{mn} at line {pc0} completed although its entries are {vals}")
        if ev[0] == "step" and snap["blocked"] and before["blocked"] and snap["pc"] == before["pc"]:
            pc0 = before["pc"]
            if 0 <= pc0 < len(w.prog) and w.prog[pc0][0].startswith("wait_"):
                mn, ops = w.prog[pc0]
                regs = snap["regs"]
                o = ops[0]
                a = arrays.get(str(o[1]), [])
                if mn == "wait_single":
                    vals = [a[regs[f"R{o[2][2]}"]]]
                    ready = vals[0] is not None
                else:
                    vals = a[regs[f"R{o[2][2]}"]: regs[f"R{o[3][2]}"]]
                    ready = all(v is not None for v in vals) if mn == "wait_all" else any(v is not None for v in vals)
                if ready:
                    bad("wait-does-not-resume", f"{mn} at line {pc0} stays blocked although its condition holds: {vals}")
    mapped = [p for p in snap["unit_module"] if p is not None]
    if len(set(mapped)) != len(mapped):
        bad("physical-qubit-shared", f"two virtual qubits map to one physical qubit: {snap['unit_module']}")
    if not set(mapped) <= set(snap["used"]):
        bad("mapped-not-used", f"mapped physical qubits {mapped} not all marked used {snap['used']}")
    return ok


def _freed_since(w: World, i: int, k: int) -> bool:
    """the program may legitimately have freed the qubit after the response mapped it (scenario S6 frees BEFORE, never after)"""
    return False


def check_quiescent(w: World, snap, case, part) -> None:
    exp = expected_slices(w)
    total = sum(r.number for r in w.reqs)
    if len(exp) != total:
        return
    arrays = snap["arrays"]
    for (i, k), want in exp.items():
        req = w.reqs[i]
        if req.raddr is None:
            add_violation(part, f"request-never-issued/{w.name}", f"request {i} was never issued although the program finished", case)
            continue
        sl = (arrays.get(str(req.raddr)) or [])[10 * k:10 * k + 10]
        if sl != want:
            add_violation(part, f"lost-response/{w.name}", f"at quiescence slice {k} of request {i} is {sl}, its response was never stored",
                          case, {"expected": want})
    if snap["queues"]:
        add_violation(part, f"request-not-retired/{w.name}", f"requests still queued at quiescence: {snap['queues']}", case)
    if snap["pending"]:
        add_violation(part, f"response-never-handled/{w.name}", f"responses still pending at quiescence: {snap['pending']}", case)
    mapped = sorted(p for p in snap["unit_module"] if p is not None)
    if mapped != snap["used"]:
        add_violation(part, f"used-differs-from-mapped/{w.name}", f"at quiescence used {snap['used']} != mapped {mapped}", case)
    count(part, "quiescent-states")


# ----------------------------------------------------------------------------- exploration
def expand(shard):
    name, histories = shard
    part = new_part()
    succ = []
    for history in histories:
        base = build(name, history)
        before = base.snapshot()
        evs = base.enabled()
        progressed = False
        for ev in evs:
            w = build(name, history)
            w.apply(ev)
            snap = w.snapshot()
            part["evals"] += 1
            part["transitions"] += 1
            count(part, f"event/{ev[0]}")
            case = {"scenario": name, "history": [list(e) for e in history] + [list(ev)]}
            if ev[0] == "deliver":
                if snap["pending"] and len(snap["pending"]) > len(before["pending"]):
                    count(part, "deferred")
                else:
                    count(part, "handled-at-once")
                nr = None
            if key(snap) != key(before):
                progressed = True
            if not check_state(w, before, ev, snap, case, part):
                continue
            succ.append((key(snap), list(history) + [ev]))
        if not base.finished and not progressed:
            # nothing enabled changes the state: the program is stuck
            total = sum(r.number for r in base.reqs)
            add_violation(part, f"stuck/{name}", "no enabled event changes the state but the program has not finished "
                          f"({len(base.responses)} of {total} responses delivered, blocked={base.blocked}, pc={base.pc})",
                          {"scenario": name, "history": [list(e) for e in history]}, {"state": before})
        if base.finished and not [e for e in evs if e[0] != "step"]:
            check_quiescent(base, before, {"scenario": name, "history": [list(e) for e in history]}, part)
    part["_succ"] = succ
    return part


def explore_scenario(shard):
    """whole BFS of one scenario inside one worker (levels are small; per-level process pools cost more than they give)"""
    name, cap = shard
    total = new_part()
    root = build(name, [])
    seen = {key(root.snapshot())}
    frontier: List[List[Tuple]] = [[]]
    total["states"] += 1
    depth = 0
    capped = False
    while frontier:
        r = expand((name, frontier))
        nxt = []
        for k, h in r.pop("_succ"):
            if k not in seen:
                seen.add(k)
                nxt.append(h)
        for fld in ("evals", "transitions"):
            total[fld] += r[fld]
        for v in r["violations"]:
            total["violations"].append(v)
        for c, n in r["counters"].items():
            total["counters"][c] = total["counters"].get(c, 0) + n
        total["states"] += len(nxt)
        total["distinct"] += len(nxt)
        frontier = nxt
        depth += 1
        if len(seen) > cap:
            total["caps"].append(f"{name}: state cap {cap} reached at depth {depth}")
            capped = True
            break
    total["notes"].append(f"{name}: states={len(seen)} depth={depth} closed={not capped}")
    total["counters"][f"scenario-closed/{name}"] = 0 if capped else 1
    return total


def explore(ctx, name: str, cap: int):
    root = build(name, [])
    seen = {key(root.snapshot())}
    frontier: List[List[Tuple]] = [[]]
    ctx.total["states"] += 1
    depth = 0
    while frontier:
        batch = max(1, len(frontier) // (ctx.jobs * 2) + 1)
        res = ctx.pmap(expand, [(name, frontier[i:i + batch]) for i in range(0, len(frontier), batch)])
        nxt = []
        for r in res:
            for k, h in r.pop("_succ"):
                if k not in seen:
                    seen.add(k)
                    nxt.append(h)
        ctx.total["states"] += len(nxt)
        ctx.total["distinct"] += len(nxt)
        frontier = nxt
        depth += 1
        if len(seen) > cap:
            ctx.total["caps"].append(f"{name}: state cap {cap} reached at depth {depth}")
            break
    ctx.extra.setdefault("scenarios", {})[name] = {"states": len(seen), "depth": depth, "closed": not frontier}


def _det(case):
    name, hist = case
    return key(build(name, hist).snapshot())


def run(ctx):
    names = list(scenarios()) + list(SDK_SCENARIOS)
    ctx.determinism("history replay", _det, [(n, h) for n in names for h in ([], [("step",)] * 12, [("deliver", 1, 0, "recv"), ("step",), ("step",)])
                                             if not (h and h[0][0] == "deliver" and (1, 0, "recv") not in {r.stream for r in World(n).reqs})])
    cap = 30000 if ctx.tier == "quick" else 300000
    ctx.pmap(explore_scenario, [(name, cap) for name in names])
    ctx.total["samples"].append({"scenario": "recv-2+1-same-socket",
                                 "history": [["deliver", 1, 0, "recv"], ["step"], ["deliver", 1, 0, "recv"], ["retry"]]})
    for e in ("step", "deliver", "retry"):
        ctx.require(f"event/{e}", 10)
    ctx.require("deferred", 5)
    ctx.require("handled-at-once", 5)
    ctx.require("quiescent-states", len(names))


def replay(case, part):
    hist = [tuple(e) for e in case["history"]]
    p = expand((case["scenario"], [hist[:-1]])) if hist else expand((case["scenario"], [[]]))
    part["violations"].extend(p["violations"])
    p2 = expand((case["scenario"], [hist]))
    part["violations"].extend(v for v in p2["violations"] if v["fingerprint"].startswith(("stuck", "lost", "request-not", "response-never", "used-differs")))
