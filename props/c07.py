"""C07 — NV gate decompositions equal the vanilla gates they replace.

Deciding step: exhaustive enumeration of (gate, qubit placement, rotation numerator,
denominator, mode) run through the REAL NVSubroutineTranspiler; the emitted NV
instructions are interpreted with the independent operator semantics of mc/qsim.py and
compared as exact matrices (up to one global phase) with the textbook operator, which is
equivalent to "for arbitrary input states".  The published matrices (`to_matrix`,
util/quantum_gates.py) are compared with the same independent definitions.
"""
from __future__ import annotations

import itertools
import math
from typing import Any, Dict, List, Sequence, Tuple

import numpy as np

from mc import qsim, world
from mc.report import guard_harness as _guard
from mc.report import add_sample, add_violation, count, new_part

LEVEL = "exploration"
RULE = ("single-qubit gates X,Y,Z,H,K,S,T x qubit id in {0,1,2}; rot_x/y/z x all 256 numerators x all 256 denominators "
        "(simulation mode) and denominators 0..4 / rejection of 5..255 (hardware mode) x ids {0,1}; CNOT, CPHASE x all ordered "
        "pairs of distinct ids over {0,1,2,3}; MOV 0->c and c->0 (and carbon-carbon rejected); every to_matrix / "
        "to_matrix_target_only x all (n,d); util.quantum_gates tables; distinct = distinct (gate, placement, n, d, mode); "
        "non-trivial = all of them except rotations with numerator 0")
ASSUMPTIONS = ["NV instruction semantics: rot_a(t) = cos(t/2) I - i sin(t/2) P_a; crot_a(t) = |0><0| x R_a(t) + |1><1| x R_a(-t) with the "
               "first register as control (NetQASM paper / nv-gates-docs)",
               "matrix equality up to one global phase with atol 1e-9 covers arbitrary input states (operators are linear)"]

SINGLE = ["x", "y", "z", "h", "k", "s", "t"]


# ----------------------------------------------------------------------------- running the real transpiler
def transpile(prog, debug=False):
    """prog: neutral [(mnemonic, ops)] in the vanilla flavour -> list of real NV instructions."""
    from netqasm.lang.subroutine import Subroutine
    from netqasm.sdk.transpile import NVSubroutineTranspiler
    from props.c04 import to_real
    sub = Subroutine(instructions=to_real(prog), app_id=0, netqasm_version=(0, 0))
    out = NVSubroutineTranspiler(sub, debug=debug).transpile()
    return out.instructions


NV_ALLOWED = {"rot_x", "rot_y", "rot_z", "crot_x", "crot_y"}


def unitary_of(instrs, ids: Sequence[int]) -> np.ndarray:
    """Operator of an emitted NV instruction list on the virtual qubits `ids` (first id = most significant)."""
    from netqasm.lang.instr.base import DebugInstruction
    n = len(ids)
    regs: Dict[Tuple[str, int], int] = {}
    cols = []
    for b in range(2 ** n):
        st = qsim.QState()
        for k, v in enumerate(ids):
            st.add(v, [0, 1] if (b >> (n - 1 - k)) & 1 else [1, 0])
        cols.append(st)
    for ins in instrs:
        if isinstance(ins, DebugInstruction):
            continue
        mn = ins.mnemonic
        if mn == "set":
            regs[(ins.reg.name.name, ins.reg.index)] = ins.imm.value
            continue
        if mn not in NV_ALLOWED:
            raise ValueError(f"not an NV-flavour gate: {mn}")
        if mn.startswith("crot"):
            q0 = regs[(ins.reg0.name.name, ins.reg0.index)]
            q1 = regs[(ins.reg1.name.name, ins.reg1.index)]
            m = qsim.crot(mn[-1], qsim.angle(ins.imm0.value, ins.imm1.value))
            for st in cols:
                st.apply(m, q0, q1)
        else:
            q = regs[(ins.reg.name.name, ins.reg.index)]
            m = qsim.rot(mn[-1], qsim.angle(ins.imm0.value, ins.imm1.value))
            for st in cols:
                st.apply(m, q)
    return np.array([st.vector(list(ids)) for st in cols]).T


def embed(mat: np.ndarray, on: Sequence[int], ids: Sequence[int]) -> np.ndarray:
    """Operator `mat` acting on virtual qubits `on`, identity elsewhere, in the basis of `ids`."""
    n = len(ids)
    cols = []
    for b in range(2 ** n):
        st = qsim.QState()
        for k, v in enumerate(ids):
            st.add(v, [0, 1] if (b >> (n - 1 - k)) & 1 else [1, 0])
        st.apply(mat, *on)
        cols.append(st.vector(list(ids)))
    return np.array(cols).T


Q0 = ("r", "Q", 0)
Q1 = ("r", "Q", 1)


# ----------------------------------------------------------------------------- shards
def shard_single(shard):
    part = new_part()
    for g in SINGLE:
        for qid in (0, 1, 2):
            case = {"gate": g, "qubit": qid}
            part["evals"] += 1
            part["distinct"] += 1
            try:
                out = transpile([("set", [Q0, qid]), (g, [Q0])])
                u = unitary_of(out, [qid])
            except Exception as exc:
                _guard(exc)
                add_violation(part, f"transpile-raises/{g}", f"{type(exc).__name__}: {exc}", case)
                continue
            if not qsim.equal_up_to_phase(u, qsim.GATES1[g]):
                add_violation(part, f"single-qubit/{g}", f"NV expansion of {g} is not the {g.upper()} gate", case,
                              {"emitted": [str(i) for i in out], "got": np.round(u, 6).tolist()})
            count(part, f"gate/{g}")
    add_sample(part, {"gate": "h", "qubit": 1, "emitted": [str(i) for i in transpile([("set", [Q0, 1]), ("h", [Q0])])]})
    return part


def shard_rot(shard):
    _, axis, hw, n_lo, n_hi = shard
    part = new_part()
    mn = f"rot_{axis}"
    with world.hardware_mode(hw):
        for n in range(n_lo, n_hi):
            for d in range(256):
                for qid in (0, 1):
                    part["evals"] += 1
                    part["distinct"] += 1 if n else 0
                    case = {"gate": mn, "qubit": qid, "n": n, "d": d, "hardware": hw}
                    try:
                        out = transpile([("set", [Q0, qid]), (mn, [Q0, n, d])])
                    except ValueError:
                        if hw and d > 4:
                            count(part, "hardware-denominator-rejected")
                            continue
                        add_violation(part, f"transpile-raises/{mn}", "rotation rejected", case)
                        continue
                    except Exception as exc:
                        _guard(exc)
                        add_violation(part, f"transpile-raises/{mn}", f"{type(exc).__name__}: {exc}", case)
                        continue
                    if hw and d > 4:
                        add_violation(part, f"hardware-denominator-accepted/{mn}", "hardware mode accepted a denominator the "
                                      "hardware cannot do", case)
                        continue
                    gates = [i for i in out if i.mnemonic != "set"]
                    if hw:
                        bad = [i for i in gates if i.imm1.value != 4 or not 0 <= i.imm0.value <= 255]
                        if bad:
                            add_violation(part, f"hardware-angle-not-normalised/{mn}", "hardware mode emitted a rotation that is "
                                          "not k*pi/16 with an 8-bit numerator", case, {"emitted": [str(i) for i in out]})
                            continue
                    # single-qubit: multiply 2x2 matrices directly (fast path of unitary_of)
                    u = np.eye(2, dtype=complex)
                    ok = True
                    for i in gates:
                        if i.mnemonic not in ("rot_x", "rot_y", "rot_z"):
                            ok = False
                            break
                        u = qsim.rot(i.mnemonic[-1], qsim.angle(i.imm0.value, i.imm1.value)) @ u
                    want = qsim.rot(axis, n * math.pi / (2.0 ** d)) if d < 1000 else None
                    if not ok or not qsim.equal_up_to_phase(u, want):
                        add_violation(part, f"rotation/{mn}/{'hardware' if hw else 'simulation'}",
                                      f"NV expansion of {mn}({n},{d}) is not that rotation", case,
                                      {"emitted": [str(i) for i in out]})
    count(part, f"rot/{axis}/{'hw' if hw else 'sim'}", part["evals"])
    return part


def shard_two(shard):
    part = new_part()
    for g, mat in (("cnot", qsim.CNOT), ("cphase", qsim.CPHASE)):
        for a, b in itertools.permutations(range(4), 2):
            part["evals"] += 1
            part["distinct"] += 1
            case = {"gate": g, "control": a, "target": b}
            kind = "electron-control" if a == 0 else ("electron-target" if b == 0 else "carbon-carbon")
            ids = sorted({0, a, b})
            try:
                out = transpile([("set", [Q0, a]), ("set", [Q1, b]), (g, [Q0, Q1])])
                u = unitary_of(out, ids)
            except Exception as exc:
                _guard(exc)
                add_violation(part, f"transpile-raises/{g}/{kind}", f"{type(exc).__name__}: {exc}", case)
                continue
            want = embed(mat, [a, b], ids)
            if not qsim.equal_up_to_phase(u, want):
                what = "the borrowed electron is not restored or the gate is wrong" if kind == "carbon-carbon" else "wrong operator"
                add_violation(part, f"two-qubit/{g}/{kind}", f"NV expansion of {g} ({kind}): {what}", case,
                              {"emitted": [str(i) for i in out]})
            count(part, f"two/{g}/{kind}")
    add_sample(part, {"gate": "cnot", "control": 1, "target": 2, "ids": [0, 1, 2]})
    return part


def shard_mov(shard):
    part = new_part()
    for src, tgt in [(0, 1), (0, 2), (0, 3), (1, 0), (2, 0), (3, 0)]:
        part["evals"] += 1
        part["distinct"] += 1
        case = {"gate": "mov", "source": src, "target": tgt}
        try:
            out = transpile([("set", [Q0, src]), ("set", [Q1, tgt]), ("mov", [Q0, Q1])])
            u = unitary_of(out, [src, tgt])
        except Exception as exc:
            _guard(exc)
            add_violation(part, "transpile-raises/mov", f"{type(exc).__name__}: {exc}", case)
            continue
        o0 = u[:, 0].reshape(2, 2)     # U |0>_src |0>_tgt   as [src, tgt]
        o1 = u[:, 2].reshape(2, 2)     # U |1>_src |0>_tgt
        ok = (np.allclose(o0[:, 1], 0, atol=1e-9) and np.allclose(o1[:, 0], 0, atol=1e-9)
              and np.allclose(o0[:, 0], o1[:, 1], atol=1e-9) and abs(np.linalg.norm(o0[:, 0]) - 1) < 1e-9)
        if not ok:
            add_violation(part, f"mov/{'electron-to-carbon' if src == 0 else 'carbon-to-electron'}",
                          "MOV does not transfer an arbitrary source state onto a freshly initialised target", case,
                          {"emitted": [str(i) for i in out], "U|00>": np.round(u[:, 0], 6).tolist(), "U|10>": np.round(u[:, 2], 6).tolist()})
        count(part, "mov")
    # unknown register values at transpile time: documented fallback is electron->carbon
    part["evals"] += 1
    part["distinct"] += 1
    out = transpile([("load", [Q0, ("entry", 0, ("r", "R", 0))]), ("load", [Q1, ("entry", 0, ("r", "R", 1))]), ("mov", [Q0, Q1])])
    if [i.mnemonic for i in out if i.mnemonic not in ("load",)] != [i.mnemonic for i in
            transpile([("set", [Q0, 0]), ("set", [Q1, 1]), ("mov", [Q0, Q1])]) if i.mnemonic != "set"]:
        add_violation(part, "mov/unknown-registers", "MOV with registers unknown at transpile time is not the electron-to-carbon circuit",
                      {"gate": "mov", "registers": "loaded"})
    for a, b in [(1, 2), (2, 1)]:
        part["evals"] += 1
        part["distinct"] += 1
        try:
            transpile([("set", [Q0, a]), ("set", [Q1, b]), ("mov", [Q0, Q1])])
            add_violation(part, "mov/carbon-carbon-accepted", "carbon-to-carbon MOV was accepted", {"gate": "mov", "source": a, "target": b})
        except RuntimeError:
            count(part, "mov-rejected")
    return part


def shard_matrices(shard):
    from netqasm.lang.encoding import RegisterName
    from netqasm.lang.instr import nv, vanilla
    from netqasm.lang.operand import Immediate, Register
    from netqasm.util import quantum_gates as QG
    from netqasm.lang.ir import GenericInstr
    _, lo, hi = shard
    part = new_part()
    q = Register(RegisterName.Q, 0)
    q1 = Register(RegisterName.Q, 1)
    bad = np.full((1, 1), np.nan, dtype=complex)      # compares unequal to every gate

    def M(fn, what, case):
        """the published matrix, or a never-matching placeholder plus a violation when computing it raises"""
        try:
            return np.asarray(fn(), dtype=complex)
        except Exception as exc:
            _guard(exc)
            add_violation(part, f"published-matrix-raises/{what}", f"{what}: computing the published matrix raised "
                          f"{type(exc).__name__}: {exc}", case)
            return bad
    if lo == 0:
        for mod, name in ((vanilla, "vanilla"), (nv, "nv")):
            for g in ("x", "y", "z", "h", "s", "k", "t"):
                cls = getattr(mod, f"Gate{g.upper()}Instruction", None)
                if cls is None:
                    continue
                part["evals"] += 1
                part["distinct"] += 1
                m = M(lambda: cls(reg=q).to_matrix(), f"{name}/{g}", {"class": cls.__name__})
                if not qsim.equal_up_to_phase(m, qsim.GATES1[g]):
                    add_violation(part, f"published-matrix/{name}/{g}", f"{name} {g}.to_matrix() is not the {g.upper()} gate", {"class": cls.__name__})
                count(part, "published/static")
        for g, mat, tgt in (("Cnot", qsim.CNOT, qsim.X), ("Cphase", qsim.CPHASE, qsim.Z)):
            cls = getattr(vanilla, f"{g}Instruction")
            part["evals"] += 1
            part["distinct"] += 1
            if not qsim.equal_up_to_phase(M(lambda: cls(reg0=q, reg1=q1).to_matrix(), f"vanilla/{g.lower()}", {"class": cls.__name__}), mat):
                add_violation(part, f"published-matrix/vanilla/{g.lower()}", f"{g}.to_matrix() is wrong", {"class": cls.__name__})
            if not qsim.equal_up_to_phase(M(lambda: cls(reg0=q, reg1=q1).to_matrix_target_only(), f"vanilla/{g.lower()}-target-only", {"class": cls.__name__}), tgt):
                add_violation(part, f"published-matrix/vanilla/{g.lower()}-target-only", f"{g}.to_matrix_target_only() is wrong", {"class": cls.__name__})
        part["evals"] += 1
        if not qsim.equal_up_to_phase(M(lambda: vanilla.MovInstruction(reg0=q, reg1=q1).to_matrix(), "vanilla/mov", {"class": "MovInstruction"}), qsim.SWAP):
            add_violation(part, "published-matrix/vanilla/mov", "mov.to_matrix() is not the documented SWAP", {"class": "MovInstruction"})
        table = {GenericInstr.X: qsim.X, GenericInstr.Y: qsim.Y, GenericInstr.Z: qsim.Z, GenericInstr.H: qsim.H, GenericInstr.K: qsim.K,
                 GenericInstr.S: qsim.S, GenericInstr.T: qsim.T, GenericInstr.CNOT: qsim.CNOT, GenericInstr.CPHASE: qsim.CPHASE}
        for gi, want in table.items():
            part["evals"] += 1
            part["distinct"] += 1
            if not qsim.equal_up_to_phase(M(lambda: QG.gate_to_matrix(gi), f"util/{gi.name.lower()}", {"gate": gi.name}), want):
                add_violation(part, f"published-matrix/util/{gi.name.lower()}", f"util.quantum_gates table entry {gi.name} is wrong", {"gate": gi.name})
    for n in range(lo, hi):
        for d in (list(range(0, 12)) + [16, 31, 63, 255]):
            th = n * math.pi / (2.0 ** d)
            for axis in "xyz":
                for mod, name in ((vanilla, "vanilla"), (nv, "nv")):
                    cls = getattr(mod, f"Rot{axis.upper()}Instruction")
                    part["evals"] += 1
                    part["distinct"] += 1 if n else 0
                    m = M(lambda: cls(reg=q, imm0=Immediate(n), imm1=Immediate(d)).to_matrix(), f"{name}/rot_{axis}", {"n": n, "d": d})
                    if not qsim.equal_up_to_phase(m, qsim.rot(axis, th)):
                        add_violation(part, f"published-matrix/{name}/rot_{axis}", f"{name} rot_{axis}.to_matrix() is not that rotation",
                                      {"n": n, "d": d})
                gi = getattr(GenericInstr, f"ROT_{axis.upper()}")
                part["evals"] += 1
                if not qsim.equal_up_to_phase(M(lambda: QG.gate_to_matrix(gi, angle=(n, d)), f"util/rot_{axis}", {"n": n, "d": d}), qsim.rot(axis, th)):
                    add_violation(part, f"published-matrix/util/rot_{axis}", "util.quantum_gates rotation matrix is wrong", {"n": n, "d": d})
            for axis in "xy":
                cls = getattr(nv, f"ControlledRot{axis.upper()}Instruction")
                ins = cls(reg0=q, reg1=q1, imm0=Immediate(n), imm1=Immediate(d))
                part["evals"] += 2
                part["distinct"] += 2 if n else 0
                if not qsim.equal_up_to_phase(M(lambda: ins.to_matrix(), f"nv/crot_{axis}", {"n": n, "d": d}), qsim.crot(axis, th)):
                    add_violation(part, f"published-matrix/nv/crot_{axis}", f"crot_{axis}.to_matrix() is not the controlled "
                                  f"{axis.upper()} rotation", {"n": n, "d": d})
                if not qsim.equal_up_to_phase(M(lambda: ins.to_matrix_target_only(), f"nv/crot_{axis}-target-only", {"n": n, "d": d}), qsim.rot(axis, th)):
                    add_violation(part, f"published-matrix/nv/crot_{axis}-target-only", f"crot_{axis}.to_matrix_target_only() is not "
                                  f"the {axis.upper()} rotation", {"n": n, "d": d})
    count(part, "published/rot", 1)
    return part


def _dispatch(shard):
    return {"single": shard_single, "rot": shard_rot, "two": shard_two, "mov": shard_mov, "mat": shard_matrices}[shard[0]](shard)


def run(ctx):
    shards: List[Any] = [("single",), ("two",), ("mov",)]
    for axis in "xyz":
        for lo in range(0, 256, 16):
            shards.append(("rot", axis, False, lo, lo + 16))
        for lo in range(0, 256, 64):
            shards.append(("rot", axis, True, lo, lo + 64))
    for lo in range(0, 256, 32):
        shards.append(("mat", lo, lo + 32))
    ctx.pmap(_dispatch, shards)
    for g in SINGLE:
        ctx.require(f"gate/{g}", 3)
    for g in ("cnot", "cphase"):
        for kind in ("electron-control", "electron-target", "carbon-carbon"):
            ctx.require(f"two/{g}/{kind}", 3)
    ctx.require("mov", 6)
    ctx.require("mov-rejected", 2)
    ctx.require("hardware-denominator-rejected", 1000)
    for axis in "xyz":
        ctx.require(f"rot/{axis}/sim", 256 * 256 * 2)


def replay(case, part):
    g = case.get("gate")
    if g in SINGLE:
        part["violations"].extend(shard_single(("single",))["violations"])
    elif g in ("cnot", "cphase"):
        part["violations"].extend(shard_two(("two",))["violations"])
    elif g == "mov":
        part["violations"].extend(shard_mov(("mov",))["violations"])
    elif g and g.startswith("rot_"):
        n = case["n"]
        part["violations"].extend(shard_rot(("rot", g[-1], case["hardware"], n, n + 1))["violations"])
    else:
        n = case.get("n", 0)
        part["violations"].extend(shard_matrices(("mat", n, n + 1))["violations"])
        if n:
            part["violations"].extend(shard_matrices(("mat", 0, 1))["violations"])
