"""C09 — SDK and controller agree on which virtual qubits exist.

Explicit-state BFS over histories of SDK qubit operations on one connection, for every qubit
budget and hardware configuration; every history is executed through the real SDK ->
controller pipeline (the harness executor faults, like real back-ends, on any gate,
measurement or rotation addressing an unallocated virtual qubit; double allocation and free
of an unallocated qubit are the executor's own faults).
"""
from __future__ import annotations

import json
import re
from typing import Any, Dict, List, Optional, Tuple

from mc import netstack, simctl, world
from mc.report import guard_harness as _guard
from mc.report import add_sample, add_violation, count, new_part

LEVEL = "model_checking"
RULE = ("BFS over histories of {new qubit, single-qubit gate, cnot, in-place measurement, destructive measurement, free, "
        "create_keep(1|2), recv_keep(1|2), sequential create/recv_keep(1) without a post routine (handle used at once), sequential create/recv_keep with a measuring post routine, create/recv context with a "
        "measuring body, flush} on live-handle ranks, enabled only while the number of live qubits stays within the budget "
        "(budget-1 on single-communication-qubit hardware), for budgets 1..5 x {generic, NV config, NV config + NV transpiler}; "
        "state = (handle ids, digest of pending commands with addresses renamed, builder qubit list, controller unit module); "
        "plus, per configuration and budget 2..4, the same alphabet with a flush after every operation until the frontier is empty (closed graph: flushed histories of any length); distinct = distinct states; non-trivial = every transition (each replays the history on the real pipeline)")
ASSUMPTIONS = ["EPR responses are delivered on demand (one per blocked wait) on fresh physical qubits, all Phi+",
               "a handle the program consumed (destructive measurement, free, measuring post routine / context body) is no longer "
               "counted as live by the harness; the property demands the SDK agrees",
               "gates act on the first and the last live handle only (bounds the branching), cnot on (first,last) and (last,first)"]

# "transpiler-only": the NV transpiler is configured but no hardware configuration is given (the builder then has to assume
# NV hardware by itself: one communication qubit, virtual ID 0 kept free)
CONFIGS = ["generic", "nv", "nv+transpiler", "transpiler-only"]


class World:
    def __init__(self, budget: int, config: str, reset: bool = True, app_name: str = "alice"):
        from netqasm.lang.instr.flavour import NVFlavour
        from netqasm.sdk.build_types import GenericHardwareConfig, NVHardwareConfig
        from netqasm.sdk.epr_socket import EPRSocket
        from netqasm.sdk.transpile import NVSubroutineTranspiler
        if reset:
            world.reset()
        self.budget = budget
        # "<config>/flushed": every operation is followed by a flush at once; the state then is only (handles, allocation),
        # so the graph closes and histories of any length are covered (with a flush after every operation)
        self.autoflush = config.endswith("/flushed")
        config = config.split("/")[0]
        self.config = config
        self.epr = EPRSocket("bob")
        kwargs: Dict[str, Any] = {"epr_sockets": [self.epr], "max_qubits": budget}
        flavour = None
        if config == "generic":
            kwargs["hardware_config"] = GenericHardwareConfig(budget)
        elif config == "transpiler-only":
            kwargs["compiler"] = NVSubroutineTranspiler
            flavour = NVFlavour()
        else:
            kwargs["hardware_config"] = NVHardwareConfig(budget)
            if config == "nv+transpiler":
                kwargs["compiler"] = NVSubroutineTranspiler
                flavour = NVFlavour()
        self.ctrl, self.conn = simctl.make_pair(app_name, flavour=flavour, horizon=20000, **kwargs)
        self.link = netstack.AutoLink(self.ctrl)
        self.live: List[Any] = []          # handles the program still holds
        self.must_flush = False
        self.cc_free_electron = False      # a carbon-carbon gate was emitted while no live qubit holds virtual ID 0
        self.failed: Optional[str] = None

    @property
    def limit(self) -> int:
        return self.budget if self.config == "generic" else self.budget - 1

    def allocated(self) -> List[int]:
        um = self.ctrl.executor._qubit_unit_modules[self.conn.app_id]
        return [i for i, p in enumerate(um) if p is not None]


def events_for(w: World) -> List[Tuple]:
    n = len(w.live)
    ev: List[Tuple] = [] if w.autoflush else [("flush",)]
    if w.must_flush:
        # after an operation whose handles are consumed inside the subroutine only a flush can validate the agreement
        return ev
    room = w.limit - n
    if room >= 1:
        ev.append(("new",))
        ev.append(("create_keep", 1))
        ev.append(("recv_keep", 1))
        ev.append(("create_keep_seq", 1))
        ev.append(("recv_keep_seq", 1))
        ev.append(("create_seq_post", 2))
        ev.append(("recv_seq_post", 2))
        ev.append(("create_seq_post", 1))
        ev.append(("recv_seq_post", 1))
        ev.append(("create_dep_seq_post", 1))
        ev.append(("recv_dep_seq_post", 1))
        ev.append(("create_context_seq", 2))
        ev.append(("recv_context_seq", 2))
        ev.append(("create_context_seq", 1))
        ev.append(("create_context", 1))
    if room >= 2:
        ev.append(("create_keep", 2))
        ev.append(("recv_keep", 2))
        ev.append(("create_context", 2))
        ev.append(("recv_context", 2))
    ranks = sorted({0, n - 1}) if n else []
    for r in ranks:
        ev.append(("gate", r))
        ev.append(("reset", r))
        ev.append(("meas_inplace", r))
        ev.append(("measure", r))
        ev.append(("free", r))
    if n >= 2:
        ev.append(("cnot", 0, n - 1))
        ev.append(("cnot", n - 1, 0))
    return ev


def apply(w: World, ev: Tuple) -> None:
    from netqasm.sdk.qubit import Qubit
    k = ev[0]
    conn, epr = w.conn, w.epr
    if k == "flush":
        conn.flush()
        w.must_flush = False
        w.cc_free_electron = False
    elif k == "new":
        w.live.append(Qubit(conn))
    elif k == "gate":
        w.live[ev[1]].H()
    elif k == "reset":
        w.live[ev[1]].reset()          # back to |0>: the qubit stays allocated under the same virtual ID
    elif k == "cnot":
        a, b = w.live[ev[1]], w.live[ev[2]]
        if w.config in ("nv+transpiler", "transpiler-only") and a.qubit_id != 0 and b.qubit_id != 0 and all(q.qubit_id != 0 for q in w.live):
            w.cc_free_electron = True
        a.cnot(b)
    elif k == "meas_inplace":
        w.live[ev[1]].measure(inplace=True)
    elif k == "measure":
        w.live.pop(ev[1]).measure()
    elif k == "free":
        w.live.pop(ev[1]).free()
    elif k == "create_keep":
        w.live.extend(epr.create_keep(number=ev[1]))
    elif k == "recv_keep":
        w.live.extend(epr.recv_keep(number=ev[1]))
    elif k in ("create_keep_seq", "recv_keep_seq"):
        # sequential without a post routine: the handle is returned to the program; it is used at once, in the same
        # subroutine (the pair is delivered only when the subroutine waits for it)
        f = epr.create_keep if k.startswith("create") else epr.recv_keep
        qs = f(number=ev[1], sequential=True)
        qs[0].H()
        w.live.extend(qs)
    elif k in ("create_dep_seq_post", "recv_dep_seq_post"):
        # the deprecated dispatcher EPRSocket.create / recv(tp=K) forwards to the same builder entry points
        from netqasm.sdk.epr_socket import EPRType

        def post_d(c, q, pair):
            q.H()
            q.measure()
        f = epr.create if k.startswith("create") else epr.recv
        f(number=ev[1], tp=EPRType.K, post_routine=post_d, sequential=True)
        w.must_flush = True
    elif k in ("create_seq_post", "recv_seq_post"):
        def post(c, q, pair):
            q.H()
            q.measure()
        f = epr.create_keep if k.startswith("create") else epr.recv_keep
        f(number=ev[1], post_routine=post, sequential=True)       # returned handles are consumed by the post routine
        w.must_flush = True
    elif k in ("create_context", "recv_context", "create_context_seq", "recv_context_seq"):
        f = epr.create_context if k.startswith("create") else epr.recv_context
        with f(number=ev[1], sequential=k.endswith("_seq")) as (q, pair):
            q.H()
            q.measure()
        w.must_flush = True
    else:
        raise AssertionError(ev)
    if w.autoflush and k != "flush":
        conn.flush()
        w.must_flush = False
        w.cc_free_electron = False


def classify(exc: Exception) -> str:
    msg = str(exc)
    if "was not allocated" in msg or "NotAllocated" in type(exc).__name__:
        return "gate-on-unallocated-qubit"
    if "already allocated" in msg:
        return "double-allocation"
    if "is not allocated and cannot be freed" in msg:
        return "free-of-unallocated-qubit"
    if "outside the unit module" in msg or "not within the allocated unit module" in msg:
        return "virtual-id-outside-unit-module"
    if isinstance(exc, AssertionError):
        import traceback
        tb = traceback.extract_tb(exc.__traceback__)
        fn = next((f.name for f in reversed(tb) if "/netqasm/" in f.filename), "unknown")
        return f"sdk-assertion:{fn}"
    return "raises-" + type(exc).__name__


def build(budget: int, config: str, history: List[Tuple]):
    """Replays a history.  Returns (world, error) where error = (event index, class, message) for the first failure."""
    w = World(budget, config)
    for i, ev in enumerate(history):
        try:
            apply(w, ev)
        except simctl.Blocked as exc:
            return w, (i, "blocks-forever", str(exc))
        except simctl.Horizon as exc:
            return w, (i, "does-not-terminate", str(exc))
        except Exception as exc:
            _guard(exc)
            return w, (i, classify(exc), f"{type(exc).__name__}: {str(exc).splitlines()[0][:200] if str(exc) else ''}")
    return w, None


def key(w: World) -> str:
    pend = []
    ren: Dict[str, str] = {}
    for c in w.conn.builder._pending_commands:
        t = re.sub(r"@(\d+)", lambda m: ren.setdefault(m.group(1), f"@a{len(ren)}"), str(c))
        t = re.sub(r"\b(LOOP|IF|WHILE)[A-Z_]*\d*", "L", t)
        pend.append(t)
    mm = w.conn.builder._mem_mgr
    return json.dumps({"live": [q.qubit_id for q in w.live], "active": [q.qubit_id for q in w.conn.active_qubits],
                       "pending": pend, "alloc": w.allocated(),
                       "arr_to_ret": len(mm._arrays_to_return)})


def expand(shard):
    budget, config, histories = shard
    part = new_part()
    succ = []
    for history in histories:
        base, err = build(budget, config, history)
        assert err is None
        if not base.conn.builder._pending_commands:
            close_probe(budget, config, history, part)
        for ev in events_for(base):
            h2 = list(history) + [ev]
            w, err = build(budget, config, h2)
            part["evals"] += 1
            part["transitions"] += 1
            count(part, f"event/{ev[0]}")
            case = {"budget": budget, "config": config, "history": [list(e) for e in h2]}
            flushed = ev[0] == "flush" or w.autoflush
            cfg0 = config.split("/")[0]
            if cfg0 == "transpiler-only":
                # must behave exactly like "nv+transpiler" (the builder assumes NV hardware by itself): same fingerprints, so
                # the open NV findings are recognised here too; the case and the message name the real configuration
                cfg0 = "nv+transpiler"
            blame = (lambda k: h2[k][0]) if w.autoflush else (lambda k: _blame(h2, k))
            if err is not None:
                i, cls, msg = err
                where = "flush" if h2[i][0] == "flush" else h2[i][0]
                if h2[i][0] != "flush" and not w.autoflush:
                    fp = f"{cls}/{h2[i][0]}" if cls.startswith("sdk-assertion") else f"{cls}/{cfg0}/{h2[i][0]}"
                elif cls == "gate-on-unallocated-qubit" and w.cc_free_electron:
                    fp = "gate-on-unallocated-qubit/carbon-carbon-gate-borrows-free-electron"
                else:
                    fp = (f"{cls}/{blame(i)}" if cls.startswith("sdk-assertion") else f"{cls}/{cfg0}/{blame(i)}")
                add_violation(part, fp, f"{config}, budget {budget}: {where} fails: {msg}", case)
                continue
            if flushed:
                alloc = w.allocated()
                active = sorted(q.qubit_id for q in w.conn.active_qubits)
                live = sorted(q.qubit_id for q in w.live)
                if active != alloc:
                    add_violation(part, f"active-qubits-differ/{blame(len(h2) - 1)}",
                                  f"{config}, budget {budget}: after flush conn.active_qubits ids {active} != controller allocated {alloc}",
                                  case, {"live_handles": live})
                    continue
                if live != alloc:
                    add_violation(part, f"live-handles-differ/{cfg0}/{blame(len(h2) - 1)}",
                                  f"{config}, budget {budget}: handles the program holds have ids {live}, controller allocated {alloc}", case)
                    continue
                count(part, "flush-agrees")
            succ.append((key(w), h2))
    part["_succ"] = succ
    return part


def close_probe(budget, config, history, part) -> None:
    """Closing the connection in a state with nothing pending: the controller releases every qubit of the application and
    the SDK forgets every handle (no handle stays usable for an application that no longer exists)."""
    w, err = build(budget, config, history)
    if err is not None or w.conn.builder._pending_commands:
        return
    held = list(w.live)
    case = {"budget": budget, "config": config, "history": [list(e) for e in history], "then": "close"}
    part["evals"] += 1
    try:
        w.conn.close()
    except (simctl.Blocked, simctl.Horizon) as exc:
        add_violation(part, "after-close/blocks", f"{config}, budget {budget}: close() does not finish: {exc}", case)
        return
    except Exception as exc:
        _guard(exc)
        add_violation(part, f"after-close/raises/{type(exc).__name__}", f"{config}, budget {budget}: close() raises {type(exc).__name__}: "
                      f"{str(exc).splitlines()[0][:160] if str(exc) else ''}", case)
        return
    active = sorted(q.qubit_id for q in w.conn.active_qubits)
    usable = sorted(q.qubit_id for q in held if q.active)
    um = w.ctrl.executor._qubit_unit_modules.get(w.conn.app_id)
    alloc = [] if um is None else [i for i, ph in enumerate(um) if ph is not None]
    if active or usable or alloc:
        add_violation(part, "after-close/handles-or-qubits-survive", f"{config}, budget {budget}: after close() with {len(held)} live "
                      f"qubit(s) conn.active_qubits ids {active}, handles still active {usable}, controller still has {alloc} allocated", case)
    else:
        count(part, "close-agrees")


def _blame(history, i) -> str:
    """names the operation kinds since the previous flush (the subroutine that fails), most specific first"""
    j = i
    kinds = []
    while j >= 0:
        k = history[j][0]
        if k == "flush" and j != i:
            break
        if k != "flush":
            kinds.append(k)
        j -= 1
    pri = ["create_context_seq", "recv_context_seq", "create_context", "recv_context", "create_seq_post", "recv_seq_post",
           "create_dep_seq_post", "recv_dep_seq_post", "free",
           "create_keep_seq", "recv_keep_seq", "create_keep", "recv_keep", "cnot",
           "measure", "meas_inplace", "new", "reset", "gate"]
    for p in pri:
        if p in kinds:
            return p
    return "flush"


def bfs(ctx, budget: int, config: str, depth: int, cap: int):
    root, err = build(budget, config, [])
    seen = {key(root)}
    frontier: List[List[Tuple]] = [[]]
    ctx.total["states"] += 1
    d = 0
    while frontier and d < depth:
        batch = max(1, len(frontier) // (ctx.jobs * 3) + 1)
        shards = [(budget, config, frontier[i:i + batch]) for i in range(0, len(frontier), batch)]
        res = ctx.pmap(expand, shards)
        nxt = []
        for r in res:
            for k, h in r.pop("_succ"):
                if k not in seen:
                    seen.add(k)
                    nxt.append(h)
        ctx.total["states"] += len(nxt)
        ctx.total["distinct"] += len(nxt)
        frontier = nxt
        d += 1
        if len(seen) > cap:
            ctx.total["caps"].append(f"{config} budget {budget}: state cap {cap} reached at depth {d}")
            break
    ctx.extra.setdefault("bfs", {})[f"{config}/{budget}"] = {"depth_completed": d, "states": len(seen), "frontier_left": len(frontier)}
    return frontier


def shard_coexist(shard):
    """Two connections (to two controllers) alive in one process at the same time: each must agree with its own controller,
    whatever the other one does - qubit bookkeeping is per connection."""
    _, config = shard
    part = new_part()
    scripts = [
        ([("new",), ("new",)], [("new",), ("flush",)], [("flush",)], [("measure", 0), ("flush",)]),
        ([("new",), ("flush",)], [("new",), ("new",), ("flush",), ("free", 1), ("flush",)], [("measure", 0), ("flush",)], [("new",), ("flush",)]),
        ([("create_keep", 1), ("flush",)], [("recv_keep", 1), ("flush",)], [("free", 0), ("flush",)], [("gate", 0), ("flush",)]),
    ]
    for si, (a1, b1, a2, b2) in enumerate(scripts):
        case = {"budget": 3, "config": config, "coexist": si, "script": [list(map(list, x)) for x in (a1, b1, a2, b2)]}
        part["evals"] += 1
        part["distinct"] += 1
        try:
            wa = World(3, config)
            for ev in a1:
                apply(wa, ev)
            wb = World(3, config, reset=False, app_name="charlie")
            if wb.conn.active_qubits:
                add_violation(part, "coexisting-connections/new-connection-not-empty", f"{config}: a new connection starts with active "
                              f"qubits {[q.qubit_id for q in wb.conn.active_qubits]} while another connection holds qubits", case)
                continue
            steps = [(wb, b1), (wa, a2), (wb, b2)]
            bad = False
            for w, evs in steps:
                for ev in evs:
                    apply(w, ev)
                for who, x in (("first", wa), ("second", wb)):
                    if x.conn.builder._pending_commands:
                        continue
                    alloc = x.allocated()
                    active = sorted(q.qubit_id for q in x.conn.active_qubits)
                    live = sorted(q.qubit_id for q in x.live)
                    if not (active == alloc == live):
                        add_violation(part, f"coexisting-connections/{who}-disagrees", f"{config}: with two connections alive, the {who} "
                                      f"one has active ids {active}, handles {live}, its controller allocated {alloc}", case)
                        bad = True
                        break
                if bad:
                    break
            if not bad:
                count(part, "coexist-agrees")
        except (simctl.Blocked, simctl.Horizon) as exc:
            add_violation(part, "coexisting-connections/blocks", f"{config}: {type(exc).__name__}: {exc}", case)
        except Exception as exc:
            _guard(exc)
            add_violation(part, f"coexisting-connections/{classify(exc)}", f"{config}: {type(exc).__name__}: "
                          f"{str(exc).splitlines()[0][:160] if str(exc) else ''}", case)
    # constructs that stay open while the other connection builds: EPR contexts of the two connections nested in each other
    for ka, kb, order in [(x, y, o) for x in ("create_context", "create_context_seq") for y in ("recv_context", "recv_context_seq")
                          for o in ("a-outside", "b-outside")]:
        case = {"budget": 3, "config": config, "coexist": f"nested/{ka}/{kb}/{order}"}
        part["evals"] += 1
        part["distinct"] += 1
        try:
            wa = World(3, config)
            wb = World(3, config, reset=False, app_name="charlie")
            outer, inner = ((wa, ka), (wb, kb)) if order == "a-outside" else ((wb, kb), (wa, ka))

            def ctx_of(w, k):
                f = w.epr.create_context if k.startswith("create") else w.epr.recv_context
                # (one pair on NV hardware: non-sequential contexts for two pairs are an open finding there, see known_findings.txt)
                return f(number=2 if config == "generic" else 1, sequential=k.endswith("_seq"))
            with ctx_of(*outer) as (q1, _p1):
                q1.H()
                with ctx_of(*inner) as (q2, _p2):
                    q2.H()
                    q2.measure()
                q1.measure()
            bad = False
            for who, x in (("first", wa), ("second", wb)):
                x.conn.flush()
                alloc = x.allocated()
                active = sorted(q.qubit_id for q in x.conn.active_qubits)
                if active != alloc:
                    add_violation(part, f"coexisting-connections/{who}-disagrees", f"{config}: EPR contexts of two connections nested "
                                  f"({ka} / {kb}, {order}): the {who} one has active ids {active}, its controller allocated {alloc}", case)
                    bad = True
            if not bad:
                count(part, "coexist-agrees")
        except (simctl.Blocked, simctl.Horizon) as exc:
            add_violation(part, "coexisting-connections/blocks", f"{config}: {type(exc).__name__}: {exc}", case)
        except Exception as exc:
            _guard(exc)
            add_violation(part, f"coexisting-connections/{classify(exc)}", f"{config}: {type(exc).__name__}: "
                          f"{str(exc).splitlines()[0][:160] if str(exc) else ''}", case)
    return part


def _det(case):
    budget, config, hist = case
    w, err = build(budget, config, hist)
    return (key(w), err)


def run(ctx):
    ctx.determinism("history replay", _det, [(3, c, h) for c in CONFIGS for h in (
        [("new",), ("flush",)], [("new",), ("create_keep", 1), ("cnot", 0, 1), ("flush",), ("measure", 0), ("flush",)],
        [("recv_keep", 2), ("flush",), ("free", 1), ("flush",)], [("create_seq_post", 2), ("flush",)])])
    if ctx.tier == "quick":
        plan = {1: 5, 2: 4, 3: 4, 4: 3, 5: 3}
        cap = 30000
    else:
        plan = {1: 8, 2: 7, 3: 6, 4: 5, 5: 5}
        cap = 60000
    for config in CONFIGS:
        for budget, depth in plan.items():
            if config != "generic" and budget == 1:
                continue       # single-communication-qubit hardware with one qubit: no live qubit allowed at all
            if config == "transpiler-only" and budget != 3:
                continue       # one budget: the configuration only differs in how the builder learns about the hardware
            bfs(ctx, budget, config, min(depth, 3) if config == "transpiler-only" else depth, cap)
    # every operation flushed at once: run until the frontier is empty (all histories of any length)
    for config in CONFIGS:
        for budget in (2, 3, 4):
            left = bfs(ctx, budget, config + "/flushed", 60, cap)
            if left:
                ctx.total["caps"].append(f"{config}/flushed budget {budget}: graph not closed within depth 60")
    ctx.pmap(shard_coexist, [("coexist", c) for c in CONFIGS])
    ctx.require("coexist-agrees", 8)
    ctx.exhaustive = True
    ctx.total["samples"].append({"budget": 3, "config": "nv", "history": [["new"], ["create_keep", 1], ["flush"], ["measure", 0], ["flush"]]})
    for k in ("flush", "new", "gate", "reset", "cnot", "meas_inplace", "measure", "free", "create_keep", "recv_keep", "create_seq_post",
              "recv_seq_post", "create_context", "recv_context", "create_context_seq", "recv_context_seq", "create_keep_seq",
              "recv_keep_seq"):
        ctx.require(f"event/{k}", 1)
    ctx.require("flush-agrees", 50)
    ctx.require("close-agrees", 50)


def replay(case, part):
    if "coexist" in case:
        part["violations"].extend(shard_coexist(("coexist", case["config"]))["violations"])
        return
    h = [tuple(e) for e in case["history"]]
    if case.get("then") == "close":
        close_probe(case["budget"], case["config"], h, part)
        return
    p = expand((case["budget"], case["config"], [h[:-1]]))
    for v in p["violations"]:
        if v["case"]["history"] == case["history"]:
            part["violations"].append(v)
