"""C18 — thread sockets deliver every message once and in order under any schedule.

Real threads run the real ThreadSocket / _SocketHub / BroadcastChannelBySockets code under
the deviation-bounded schedule explorer mc/sched.py: every schedule with at most
2 (quick) / 3 (thorough) preemptions, at statement granularity inside the three
anchored files, is executed for each of the small scenarios below and judged
against a per-direction FIFO reference.
"""
from __future__ import annotations

import json
from typing import Any, Dict, List, Tuple

from mc import sched, world
from mc.report import CheckBroken, add_sample, add_violation, count, new_part

LEVEL = "model_checking"
RULE = ("for each of 16 scenarios (2-3 real threads, <= 5 sends/receives each; plain, structured and silent entry points, blocking and non-blocking, messages including the empty string) every thread schedule with <= B preemptions "
        "(B = 2 quick, 3 thorough) is executed once on the real code; scheduling point = every line event in socket_hub.py, "
        "thread_socket/socket.py, broadcast_channel.py + blocking lock acquire + hub sleep + one failed polling round; a "
        "switch at a blocking point is free; preemptions are only placed directly before a line that touches shared hub "
        "state (placements before thread-local lines commute and are pruned; audited against the unreduced exploration at "
        "B-1 preemptions, B-1 = 2 for five small scenarios in thorough); in the two three-thread scenarios choosing a "
        "non-round-robin successor at a blocking point also costs one unit of B; evaluations = complete executions of the "
        "reduced exploration, each a different schedule, all non-trivial (>= 2 threads exchange messages); states = "
        "distinct (per-thread (file, line, status), hub sets + queue contents) configurations at scheduling points, "
        "unioned per scenario; transitions = scheduling steps executed")
ASSUMPTIONS = [
    "interleaving at Python statement (line event) granularity under the GIL; bytecode-level interleavings inside one "
    "statement and free-threaded builds are out of scope",
    "preemption bound: schedules needing more than B preemptions are not explored (per scenario in the evidence: "
    "alternatives_beyond_bound); three-thread scenarios are deviation-bounded (non-default free switches are charged)",
    "hub sleep and the sleep-less polling loops are modelled as fair yields (a sleeper/poller runs again after another "
    "thread took a step, or when nobody else can run); timeouts are not used (timer frozen at 0): timing is out of scope",
    "shared state = the five hub containers, the hub lock, callback invocations and the callback storage list (access-"
    "counted); the reduction is only as good as this list, which is why it is audited against the unreduced exploration",
    "lenient reading for callback endpoints: received sequence = callback log followed by a final non-blocking drain, so a "
    "message parked in the queue of a callback endpoint counts against order only, never as loss",
    "a non-blocking receive that reports 'empty' although a completed send is still undelivered is reported as a violation "
    "of the documented recv(block=False) contract (fingerprint nonblocking/spurious-empty)",
    "sockets are closed the only way the API offers: dropping the last reference (finaliser -> hub.disconnect)",
]

HORIZON = 4000
GROUPS = {"S6a": 64, "S6b": 64, "S6c": 64}
DEFAULT_GROUPS = 48

# ----------------------------------------------------------------------------- scenarios (pure data, JSON-able)
P, CB = "plain", "callback"
SCENARIOS: Dict[str, List[Tuple[str, List[List[Any]]]]] = {
    "S1": [("A", [["connect", "a", "A", "B", 0, P], ["send", "a", "m1"], ["send", "a", "m2"]]),
           ("B", [["connect", "b", "B", "A", 0, P], ["recv", "b"], ["recv", "b"]])],
    "S2": [("A", [["connect", "a", "A", "B", 0, P], ["send", "a", "a1"], ["send", "a", "a2"], ["recv", "a"], ["recv", "a"]]),
           ("B", [["connect", "b", "B", "A", 0, P], ["send", "b", "b1"], ["recv", "b"], ["send", "b", "b2"], ["recv", "b"]])],
    "S3a": [("A", [["connect", "a", "A", "B", 0, P], ["send", "a", "m1"], ["send", "a", "m2"], ["send", "a", "m3"]]),
            ("B", [["connect", "b", "B", "A", 0, CB]])],
    "S3b": [("A", [["connect", "a", "A", "B", 0, P], ["send", "a", "m1"], ["send", "a", "m2"], ["send", "a", "m3"]]),
            ("B", [["connect", "b", "B", "A", 0, P], ["recv", "b"]])],
    "S4": [("A", [["connect", "a", "A", "B", 0, P], ["send", "a", "m1"], ["send", "a", "m2"]]),
           ("B", [["connect", "b", "B", "A", 0, P], ["nb", "b"], ["nbt", "b"], ["drain_to", "b", 2], ["nbt", "b"]])],
    "S5": [("A", [["connect", "a0", "A", "B", 0, P], ["connect", "a1", "A", "B", 1, P], ["send", "a0", "x1"],
                  ["send", "a1", "y1"], ["send", "a0", "x2"], ["send", "a1", "y2"]]),
           ("B", [["connect", "b0", "B", "A", 0, P], ["connect", "b1", "B", "A", 1, P], ["recv", "b1"], ["recv", "b0"],
                  ["recv", "b0"], ["recv", "b1"]])],
    "S6a": [("A", [["bconnect", "ca", "A", ["B", "C"]], ["bsend", "ca", "m1"]]),
            ("B", [["bconnect", "cb", "B", ["A"]], ["brecv", "cb"]]),
            ("C", [["bconnect", "cc", "C", ["A"]], ["brecv", "cc"]])],
    "S6b": [("A", [["bconnect", "ca", "A", ["B", "C"]], ["bnb", "ca"], ["brecv", "ca"], ["brecv", "ca"]]),
            ("B", [["connect", "b", "B", "A", 0, P], ["send", "b", "rB"]]),
            ("C", [["connect", "c", "C", "A", 0, P], ["send", "c", "rC"]])],
    # a broadcast channel on socket id 1: every member socket carries that id (the remotes use plain sockets with id 1)
    "S6c": [("A", [["bconnect", "ca", "A", ["B", "C"], 1], ["bsend", "ca", "m1"]]),
            ("B", [["connect", "b", "B", "A", 1, P], ["recv", "b"]]),
            ("C", [["connect", "c", "C", "A", 1, P], ["recv", "c"]])],
    "S7": [("A", [["connect", "a", "A", "B", 0, P], ["send", "a", "m1"], ["send", "a", "m2"], ["close", "a"]]),
           ("B", [["connect", "b", "B", "A", 0, P], ["wait", "b"], ["recv", "b"], ["recv", "b"], ["nb", "b"]])],
    "S8": [("A", [["connect", "a", "A", "B", 0, P], ["sends", "a", "h1", "p1"], ["sends", "a", "h2", "p2"], ["recvs", "a"]]),
           ("B", [["connect", "b", "B", "A", 0, P], ["recvs", "b"], ["recvs", "b"], ["sends", "b", "h3", "p3"]])],
    "S9a": [("A", [["connect", "a", "A", "B", 0, P], ["send", "a", "m1"], ["close", "a"]]),
            ("B", [["tick"], ["tick"], ["connect", "b", "B", "A", 0, P], ["recv", "b"]])],
    "S9b": [("A", [["tick"], ["tick"], ["connect", "a", "A", "B", 0, P], ["send", "a", "m1"], ["close", "a"]]),
            ("B", [["connect", "b", "B", "A", 0, P], ["recv", "b"]])],
    # two storing (callback) endpoints of one application: what arrives on socket 0 must not show up on socket 1
    "S3c": [("A", [["connect", "a0", "A", "B", 0, P], ["connect", "a1", "A", "B", 1, P], ["send", "a0", "x1"], ["send", "a1", "y1"],
                   ["send", "a0", "x2"]]),
            ("B", [["connect", "b0", "B", "A", 0, CB], ["connect", "b1", "B", "A", 1, CB]])],
    # message values that are easy to mistake for "nothing" or for framing: the empty string, "0", a leading blank, the
    # "EOF" marker the bundled example applications append (the communication log trims it, the channel must not)
    "S10": [("A", [["connect", "a", "A", "B", 0, P], ["send", "a", ""], ["send", "a", "0"], ["send", "a", " EOF1,1EOF"]]),
            ("B", [["connect", "b", "B", "A", 0, P], ["nb", "b"], ["recv", "b"], ["recvm", "b", 4, 3], ["recvm", "b", 1, 3], ["nb", "b"]])],
    # the less used entry points share the hub with send/recv: structured and silent, blocking and not
    # (one socket per kind: a structured message is a JSON string on the wire, the two kinds do not mix on one channel)
    "S11": [("A", [["connect", "a0", "A", "B", 0, P], ["connect", "a1", "A", "B", 1, P], ["sends", "a0", "h1", "p1"],
                   ["sendq", "a1", "q1"], ["sends", "a0", "h2", ""], ["sendq", "a1", ""]]),
            ("B", [["connect", "b0", "B", "A", 0, P], ["connect", "b1", "B", "A", 1, P], ["nbs", "b0"], ["nbq", "b1"],
                   ["drains_to", "b0", 2], ["drainq_to", "b1", 2], ["nbs", "b0"]])],
}
ORDER = ["S1", "S2", "S3a", "S3b", "S3c", "S4", "S5", "S6a", "S6b", "S6c", "S7", "S8", "S9a", "S9b", "S10", "S11"]


# ----------------------------------------------------------------------------- running one schedule of one scenario
class Env:
    def __init__(self, ex, w):
        self.ex = ex
        self.w = w
        self.socks: Dict[str, Any] = {}      # name -> live socket
        self.meta: Dict[str, Any] = {}       # name -> (me, remote, sid, kind) | ("bc", me, remotes)
        self.got: Dict[str, int] = {}

    def body(self, ops):
        def run(t):
            for op in ops:
                t.op = op[0]
                self.do(t, op)
            t.op = "end"
        return run

    def do(self, t, op):
        ex, log = self.ex, t.log
        k = op[0]
        t0 = ex.now()
        s0 = t.nsleeps
        if k == "connect":
            _, name, me, remote, sid, kind = op
            self.meta[name] = (me, remote, sid, kind)
            cls = self.w.StorageSocket if kind == CB else self.w.Socket
            self.socks[name] = cls(me, remote, socket_id=sid)
            log.append(("connect", name, t0, ex.now()))
        elif k == "bconnect":
            _, name, me, remotes = op[:4]
            self.meta[name] = ("bc", me, list(remotes), op[4] if len(op) > 4 else 0)
            kw = {"socket_id": op[4]} if len(op) > 4 else {}      # a channel on another socket id than the default
            self.socks[name] = self.w.Broadcast(me, list(remotes), **kw)
            log.append(("connect", name, t0, ex.now()))
        elif k == "send":
            try:
                self.socks[op[1]].send(op[2])
            except ConnectionError as exc:
                log.append(("send-refused", op[1], op[2], t0, ex.now()))
            else:
                log.append(("send", op[1], op[2], t0, ex.now()))
        elif k == "sends":
            from netqasm.sdk.classical_communication.message import StructuredMessage
            try:
                self.socks[op[1]].send_structured(StructuredMessage(op[2], op[3]))
            except ConnectionError:
                log.append(("send-refused", op[1], f"{op[2]}|{op[3]}", t0, ex.now()))
            else:
                log.append(("send", op[1], f"{op[2]}|{op[3]}", t0, ex.now()))
        elif k == "sendq":
            try:
                self.socks[op[1]].send_silent(op[2])
            except ConnectionError:
                log.append(("send-refused", op[1], op[2], t0, ex.now()))
            else:
                log.append(("send", op[1], op[2], t0, ex.now()))
        elif k == "bsend":
            try:
                self.socks[op[1]].send(op[2])
            except ConnectionError:
                log.append(("send-refused", op[1], op[2], t0, ex.now()))
            else:
                log.append(("send", op[1], op[2], t0, ex.now()))
        elif k == "recv":
            m = self.socks[op[1]].recv()
            self.got[op[1]] = self.got.get(op[1], 0) + 1
            log.append(("recv", op[1], m, t0, ex.now()))
        elif k == "recvm":
            # a size hint is given: the channel is message based, the message still arrives whole
            # (like drain_to: only while fewer than op[3] messages were received on this socket)
            if self.got.get(op[1], 0) < op[3]:
                m = self.socks[op[1]].recv(maxsize=op[2])
                self.got[op[1]] = self.got.get(op[1], 0) + 1
                log.append(("recv", op[1], m, t0, ex.now()))
        elif k == "recvs":
            m = self.socks[op[1]].recv_structured()
            self.got[op[1]] = self.got.get(op[1], 0) + 1
            log.append(("recv", op[1], f"{m.header}|{m.payload}" if hasattr(m, "header") else repr(m), t0, ex.now()))
        elif k == "drain_to":
            while self.got.get(op[1], 0) < op[2]:
                t1 = ex.now()
                m = self.socks[op[1]].recv()
                self.got[op[1]] = self.got.get(op[1], 0) + 1
                log.append(("recv", op[1], m, t1, ex.now()))
        elif k == "nb":
            try:
                m = self.socks[op[1]].recv(block=False)
            except RuntimeError as exc:
                log.append(("nb", op[1], None, t0, ex.now(), t.nsleeps - s0, str(exc)[:60]))
            else:
                self.got[op[1]] = self.got.get(op[1], 0) + 1
                log.append(("nb", op[1], m, t0, ex.now(), t.nsleeps - s0, ""))
        elif k == "nbt":
            # non-blocking receive with a timeout given as well: block=False wins, the timeout must not make it wait
            try:
                m = self.socks[op[1]].recv(block=False, timeout=5.0)
            except RuntimeError as exc:
                log.append(("nb", op[1], None, t0, ex.now(), t.nsleeps - s0, str(exc)[:60]))
            else:
                self.got[op[1]] = self.got.get(op[1], 0) + 1
                log.append(("nb", op[1], m, t0, ex.now(), t.nsleeps - s0, ""))
        elif k in ("nbs", "nbq"):
            try:
                m = self.socks[op[1]].recv_structured(block=False) if k == "nbs" else self.socks[op[1]].recv_silent(block=False)
            except RuntimeError as exc:
                log.append(("nb", op[1], None, t0, ex.now(), t.nsleeps - s0, str(exc)[:60]))
            else:
                self.got[op[1]] = self.got.get(op[1], 0) + 1
                log.append(("nb", op[1], f"{m.header}|{m.payload}" if hasattr(m, "header") else m, t0, ex.now(), t.nsleeps - s0, ""))
        elif k in ("drainq_to", "drains_to"):
            while self.got.get(op[1], 0) < op[2]:
                t1 = ex.now()
                m = self.socks[op[1]].recv_silent() if k == "drainq_to" else self.socks[op[1]].recv_structured()
                self.got[op[1]] = self.got.get(op[1], 0) + 1
                log.append(("recv", op[1], f"{m.header}|{m.payload}" if hasattr(m, "header") else m, t1, ex.now()))
        elif k == "brecv":
            r, m = self.socks[op[1]].recv()
            log.append(("brecv", op[1], r, m, t0, ex.now()))
        elif k == "bnb":
            try:
                r, m = self.socks[op[1]].recv(block=False)
            except RuntimeError as exc:
                log.append(("bnb", op[1], None, None, t0, ex.now(), t.nsleeps - s0))
            else:
                log.append(("bnb", op[1], r, m, t0, ex.now(), t.nsleeps - s0))
        elif k == "close":
            s = self.socks.pop(op[1])
            del s                      # the only way a ThreadSocket disconnects: its finaliser
            log.append(("close", op[1], t0, ex.now()))
        elif k == "wait":
            self.socks[op[1]].wait()
            log.append(("wait", op[1], t0, ex.now()))
        elif k == "tick":
            ex._point(t, sched.LINE, None)
        else:
            raise sched.ScheduleError(f"unknown op {op}")

    def final(self):
        """Single-threaded, after all threads ended: callback logs and a non-blocking drain of every live socket."""
        out = {}
        for name in sorted(self.socks):
            meta = self.meta[name]
            if meta[0] == "bc":
                for r, s in sorted(self.socks[name]._sockets.items()):
                    out[f"{name}/{r}"] = {"callback": None, "drained": _drain(s)}
            else:
                s = self.socks[name]
                cb = list(s._storage) if meta[3] == CB else None
                out[name] = {"callback": cb, "drained": _drain(s)}
        out["_left"] = sorted([list(k), list(map(str, v))] for k, v in self.w.queued().items())
        return out


def _drain(s):
    got = []
    for _ in range(16):
        try:
            got.append(s.recv(block=False))
        except sched.UnscheduledSleep:
            got.append("<non-blocking receive went to sleep>")
            break
        except RuntimeError:
            break
    return got


def run_schedule(scen: str, devs, states=None, trace=False, reduce=True) -> sched.Result:
    world.reset()
    ex = sched.Execution(devs, HORIZON, states=states, trace=trace, reduce=reduce)
    w = sched.SocketWorld(ex)
    env = Env(ex, w)
    for name, ops in SCENARIOS[scen]:
        ex.spawn(name, env.body(ops))
    try:
        res = ex.run()
        if res.outcome == "ok":
            res.final = env.final()
    finally:
        env.socks.clear()
        w.teardown()
    return res


# ----------------------------------------------------------------------------- oracle
def channels(scen: str):
    """(sender app, receiver app, sid) -> dict(sent=[...], recv_log=[...]) skeleton from the scenario text."""
    meta = {}
    for _tn, ops in SCENARIOS[scen]:
        for op in ops:
            if op[0] == "connect":
                meta[op[1]] = (op[2], op[3], op[4], op[5])
            elif op[0] == "bconnect":
                meta[op[1]] = ("bc", op[2], list(op[3]), op[4] if len(op) > 4 else 0)
    return meta


def judge(scen: str, res: sched.Result, devs, part) -> List[Tuple[str, str, Any]]:
    """Returns the list of (fingerprint, what, detail) this execution violates."""
    bad: List[Tuple[str, str, Any]] = []
    meta = channels(scen)
    if res.outcome in ("deadlock", "livelock"):
        ops = "+".join(sorted(str(d[4]) for d in res.detail))
        bad.append((f"{res.outcome}/{ops}", f"{res.outcome}: the unfinished threads can never proceed (stuck in: {ops}; "
                    "a receive stuck for ever = a message that never arrives, a constructor stuck for ever = endpoints that "
                    "never find each other)", {"stuck": res.detail}))
        return bad
    if res.outcome == "horizon":
        part["caps"].append(f"{scen}: step horizon {HORIZON} hit")
        bad.append(("nontermination/horizon", f"execution still running after {HORIZON} scheduling steps "
                    "(a loop in the traced code that never yields)", {"steps": res.steps}))
        return bad
    sent: Dict[Tuple[str, str, int], List[str]] = {}
    sends_done: Dict[Tuple[str, str, int], List[int]] = {}
    got: Dict[Tuple[str, str, int], List[str]] = {}
    kind_of: Dict[Tuple[str, str, int], str] = {}
    for tn, log in res.logs.items():
        for e in log:
            if e[0] == "raised":
                bad.append((f"unexpected-exception/{e[1]}", f"thread {tn}: {e[1]}: {e[2]}", {"thread": tn, "log": log}))
            elif e[0] == "send-refused":
                bad.append(("send-refused", f"thread {tn}: send raised ConnectionError although the constructor of this endpoint had "
                            "returned and the remote endpoint never closed (constructors did not rendezvous / connected is wrong)",
                            {"thread": tn, "log": log}))
            elif e[0] == "send":
                m = meta[e[1]]
                if m[0] == "bc":
                    for r in m[2]:
                        sent.setdefault((m[1], r, m[3]), []).append(e[2])
                        sends_done.setdefault((m[1], r, m[3]), []).append(e[4])
                else:
                    sent.setdefault((m[0], m[1], m[2]), []).append(e[2])
                    sends_done.setdefault((m[0], m[1], m[2]), []).append(e[4])
    for tn, log in res.logs.items():
        for e in log:
            if e[0] in ("recv", "nb"):
                m = meta[e[1]]
                ch = (m[1], m[0], m[2])
                if e[0] == "nb":
                    if e[5]:
                        bad.append(("nonblocking/blocked", "recv(block=False) went to sleep", {"thread": tn, "entry": e}))
                    if e[2] is None:
                        count(part, f"{scen}/nb-empty")
                        if "No message" not in e[6]:
                            bad.append(("nonblocking/wrong-error", f"recv(block=False) on an empty channel raised {e[6]!r}",
                                        {"entry": e}))
                        done_before = sum(1 for te in sends_done.get(ch, []) if te < e[3])
                        if done_before > len(got.get(ch, [])):
                            bad.append(("nonblocking/spurious-empty", "recv(block=False) reported an empty channel although a "
                                        "completed send was still undelivered", {"thread": tn, "entry": e, "log": log}))
                        continue
                    count(part, f"{scen}/nb-message")
                got.setdefault(ch, []).append(e[2])
            elif e[0] == "brecv" or (e[0] == "bnb" and e[2] is not None):
                m = meta[e[1]]
                got.setdefault((e[2], m[1], m[3]), []).append(e[3])
            elif e[0] == "bnb":
                count(part, f"{scen}/nb-empty")
                if e[6]:
                    bad.append(("nonblocking/blocked", "broadcast recv(block=False) went to sleep", {"thread": tn, "entry": e}))
    fin = res.final or {}
    for name, f in fin.items():
        if name == "_left":
            continue
        base, _, r = name.partition("/")
        m = meta[base]
        ch = (r, m[1], m[3]) if m[0] == "bc" else (m[1], m[0], m[2])
        kind_of[ch] = CB if (m[0] != "bc" and m[3] == CB) else P
        if f["callback"] is not None:
            got.setdefault(ch, [])
            got[ch] = list(f["callback"]) + got[ch]
            if f["callback"]:
                count(part, f"{scen}/delivery/callback")
        if f["drained"] and f["drained"][-1] == "<non-blocking receive went to sleep>":
            bad.append(("nonblocking/blocked", "recv(block=False) went to sleep (final drain)", {"socket": name}))
            f = dict(f, drained=f["drained"][:-1])
        if f["drained"]:
            count(part, f"{scen}/delivery/queued-at-end")
            got.setdefault(ch, []).extend(f["drained"])
    left = {tuple(k): v for k, v in fin.get("_left", [])}
    for ch in sorted(set(sent) | set(got)):
        s, g = sent.get(ch, []), got.get(ch, [])
        closed = [v for k, v in left.items() if (k[1], k[0], k[2]) == ch]
        if closed:                                   # receiver socket closed: what it left in its queue was not lost
            g = g + closed[0]
        if s == g:
            continue
        kind = kind_of.get(ch, P)
        f = fin.get(next((n for n in fin if n != "_left" and _ch_of(meta, n) == ch), ""), None)
        detail = {"channel": list(ch), "sent": s, "received": g, "endpoint": kind,
                  "callback_log": f["callback"] if f else None, "drained_at_end": f["drained"] if f else None}
        if sorted(s) == sorted(g):
            if kind == CB and f and f["drained"] and f["callback"] is not None and s == f["drained"] + list(f["callback"]):
                bad.append(("order/callback-endpoint/early-messages-parked-in-queue",
                            "callback endpoint: messages sent before its callbacks were registered stay in the hub queue and are "
                            "overtaken by later messages delivered through the callback", detail))
            else:
                bad.append((f"order/{kind}-endpoint", "messages received in a different order than sent", detail))
        elif any(g.count(x) > s.count(x) for x in set(g)):
            extra = [x for x in set(g) if g.count(x) > s.count(x)]
            bad.append((f"duplicate-or-unsent/{kind}-endpoint", f"received more often than sent: {sorted(map(str, extra))}", detail))
        else:
            bad.append((f"lost/{kind}-endpoint", "a sent message was never received (not even by the final drain)", detail))
    # rendezvous: every constructor returned
    for tn, ops in SCENARIOS[scen]:
        want = [op[1] for op in ops if op[0] in ("connect", "bconnect")]
        have = [e[1] for e in res.logs[tn] if e[0] == "connect"]
        if want != have and not any(e[0] == "raised" for e in res.logs[tn]):
            bad.append(("rendezvous", f"thread {tn}: constructors returned {have}, expected {want}", {"log": res.logs[tn]}))
    return bad


def _ch_of(meta, name):
    base, _, r = name.partition("/")
    m = meta[base]
    return (r, m[1], m[3]) if m[0] == "bc" else (m[1], m[0], m[2])


_KEEP = {"connect": 2, "send": 3, "send-refused": 3, "recv": 3, "nb": 3, "brecv": 4, "bnb": 4, "close": 2, "wait": 2,
         "raised": 3}


def strip_times(res: sched.Result):
    """The observation without logical time stamps (what equivalent schedules must agree on)."""
    logs = {tn: [list(e[:_KEEP[e[0]]]) for e in log] for tn, log in res.logs.items()}
    stuck = sorted([d[0], d[4]] for d in res.detail) if res.outcome in ("deadlock", "livelock") else None
    return json.dumps([res.outcome, stuck, logs, res.final], sort_keys=True, default=str)


# ----------------------------------------------------------------------------- shards
AUDIT = "audit"          # unreduced exploration (every line event is a preemption candidate) at a lower bound
MAIN = "main"
AUDIT2 = ("S1", "S3a", "S3b", "S4", "S9a")   # thorough: unreduced exploration up to 2 preemptions for the small scenarios


def bounds_for(tier: str, scen: str) -> Tuple[int, int]:
    """(bound of the reduced exploration, bound of the unreduced audit exploration)"""
    if tier == "quick":
        return 2, 1
    return 3, (2 if scen in AUDIT2 else 1)


def _case(scen, devs, res):
    return {"scenario": scen, "devs": [list(d) for d in devs], "preemptions": res.preemptions, "deviations": res.cost,
            "threads": [[n, ops] for n, ops in SCENARIOS[scen]]}


def _detail(res, tr, oracle):
    return {"preemptions": res.preemptions, "deviations": res.cost, "schedule": sched.narrative(tr), "logs": res.logs,
            "final": res.final, "oracle": oracle}


def _record(scen, mode, res, devs, part, obs, audit_bound):
    if mode == MAIN:
        part["evals"] += 1
        part["distinct"] += 1
        part["transitions"] += res.steps
        count(part, f"{scen}/executions")
        count(part, f"{scen}/cost={res.cost}")
        count(part, f"{scen}/preemptions={res.preemptions}")
    else:
        count(part, f"{scen}/audit-executions")
    o = strip_times(res)
    obs["all"].add(hash(o))
    if res.cost <= audit_bound:
        obs["low"].setdefault(hash(o), (o, [list(d) for d in devs]))
    viol = judge(scen, res, devs, part)
    for fp, what, oracle in viol:
        tr = run_schedule(scen, devs, trace=True, reduce=(mode == MAIN))
        if tr.key() != res.key():
            raise sched.Nondeterminism(f"{scen}: counterexample schedule {devs} does not replay identically")
        add_violation(part, fp, f"{scen}: {what}", _case(scen, devs, res), _detail(res, tr, oracle))
    return bool(viol)


def shard_fn(shard):
    import time
    t0 = time.time()
    scen, mode, g, roots, bound, audit_bound = shard
    part = new_part()
    states: set = set()
    obs = {"all": set(), "low": {}}
    reduce = mode == MAIN
    run_one = lambda devs: run_schedule(scen, devs, states=states if reduce else None, reduce=reduce)
    st = sched.Stats()
    sched.explore(run_one, roots, bound, lambda res, devs: _record(scen, mode, res, devs, part, obs, audit_bound), st,
                  det_first=20 if g == 0 else 2)
    if reduce:
        count(part, f"{scen}/sleeps", st.nsleeps)
        count(part, f"{scen}/poll-rounds", st.npolls)
        count(part, f"{scen}/lock-blocks", st.lock_blocks)
        count(part, f"{scen}/alternatives-beyond-bound", st.deferred_beyond_bound)
    count(part, f"{scen}/determinism-replays", st.replayed)
    part["_states"] = states
    part["_obs"] = obs
    part["_max_steps"] = st.max_steps
    part["_scen"] = scen
    part["_mode"] = mode
    part["_wall"] = round(time.time() - t0, 2)
    part["_id"] = f"{scen}/{mode}/{g}"
    if reduce and g == 0 and roots:
        add_sample(part, {"scenario": scen, "devs": roots[0][0], "threads": [[n, ops] for n, ops in SCENARIOS[scen]]})
    return part


def run(ctx):
    sched.init_tracing()
    ctx.extra["polling_loops_detected"] = sched.poll_loops()
    root_part = new_part()
    shards = []
    states: Dict[str, set] = {s: set() for s in ORDER}
    obs = {m: {s: {"all": set(), "low": {}} for s in ORDER} for m in (MAIN, AUDIT)}
    first = {}
    max_steps = 0
    for scen in ORDER:
        bound, abound = bounds_for(ctx.tier, scen)
        for mode in (MAIN, AUDIT):
            # layer 0 (every schedule without a charged deviation, i.e. every choice of the starting thread and of the free
            # switches) is explored here; the cost-1 schedules it leaves behind are dealt to the shards as subtree roots
            reduce = mode == MAIN
            st = states[scen] if reduce else None
            stats = sched.Stats()
            roots: List[Tuple[List, int]] = []
            sched.explore(lambda devs: run_schedule(scen, devs, states=st, reduce=reduce), [([], 0)], 0,
                          lambda res, devs: _record(scen, mode, res, devs, root_part, obs[mode][scen], abound), stats,
                          overflow=roots)
            max_steps = max(max_steps, stats.max_steps)
            count(root_part, f"{scen}/determinism-replays", stats.replayed)
            if reduce:
                count(root_part, f"{scen}/sleeps", stats.nsleeps)
                count(root_part, f"{scen}/poll-rounds", stats.npolls)
                first[scen] = {"schedules_without_deviation": stats.executions, "subtree_roots": len(roots),
                               "threads": len(SCENARIOS[scen]), "bound": bound, "audit_bound": abound}
            else:
                first[scen]["subtree_roots_unreduced"] = len(roots)
            roots.sort(key=lambda r: (r[0][-1][0], r[0]))
            groups = min(len(roots), GROUPS.get(scen, DEFAULT_GROUPS)) or 1
            for g in range(groups):
                shards.append((scen, mode, g, roots[g::groups], bound if reduce else abound, abound))
    add_sample(root_part, {"scenario": "S1", "devs": [], "threads": [[n, ops] for n, ops in SCENARIOS["S1"]]})
    ctx.merge(root_part)
    results = ctx.pmap(shard_fn, shards)
    for r in results:
        if r["_mode"] == MAIN:
            states[r["_scen"]] |= r["_states"]
        o = obs[r["_mode"]][r["_scen"]]
        o["all"] |= r["_obs"]["all"]
        for h, v in r["_obs"]["low"].items():
            o["low"].setdefault(h, v)
        max_steps = max(max_steps, r["_max_steps"])
    ctx.total["states"] = sum(len(s) for s in states.values())
    ctx.extra["slowest_shards_s"] = sorted(((r["_wall"], r["_id"]) for r in results), reverse=True)[:5]
    ctx.extra["shard_wall_sum_s"] = round(sum(r["_wall"] for r in results), 1)
    # the counterexample with the fewest preemptions / deviations is the one reported first
    ctx.total["violations"].sort(key=lambda v: (v["fingerprint"], v["case"]["deviations"], len(v["case"]["devs"]),
                                                json.dumps(v["case"]["devs"])))
    # reduction audit: the reduced exploration (preemptions only before segments that touch shared state) must see exactly
    # the observations the unreduced exploration sees at the same bound
    audit = {}
    for scen in ORDER:
        red, full = obs[MAIN][scen]["low"], obs[AUDIT][scen]["low"]
        audit[scen] = {"bound": first[scen]["audit_bound"], "observations_reduced": len(red), "observations_unreduced": len(full),
                       "unreduced_executions": ctx.counter(f"{scen}/audit-executions")}
        if set(red) != set(full) and not ctx.total["violations"]:
            only_full = [full[h] for h in full if h not in red][:2]
            only_red = [red[h] for h in red if h not in full][:2]
            raise CheckBroken(f"{scen}: reduction audit failed at bound {first[scen]['audit_bound']}: observations only in the "
                              f"unreduced exploration {only_full!r}, only in the reduced one {only_red!r}")
    ctx.extra["reduction_audit"] = audit
    per = {}
    top = 0
    for scen in ORDER:
        bound = first[scen]["bound"]
        top = max(top, bound)
        per[scen] = dict(first[scen])
        per[scen].update({
            "executions": ctx.counter(f"{scen}/executions"),
            "by_deviation_cost": {str(b): ctx.counter(f"{scen}/cost={b}") for b in range(bound + 1)},
            "by_preemptions": {str(b): ctx.counter(f"{scen}/preemptions={b}") for b in range(bound + 1)},
            "states": len(states[scen]),
            "distinct_observations": len(obs[MAIN][scen]["all"]),
            "alternatives_beyond_bound": ctx.counter(f"{scen}/alternatives-beyond-bound"),
        })
    ctx.extra["preemption_bound_reached"] = top
    ctx.extra["bounds_run_in_order"] = list(range(top + 1))
    ctx.extra["step_horizon"] = HORIZON
    ctx.extra["max_steps_in_one_execution"] = max_steps
    ctx.extra["per_scenario"] = per
    # vacuity guards
    for scen in ORDER:
        ctx.require(f"{scen}/executions", 2)
        ctx.require(f"{scen}/preemptions={first[scen]['bound']}", 1)
        ctx.require(f"{scen}/sleeps", 1)
        ctx.require(f"{scen}/audit-executions", 2)
        ctx.require(f"{scen}/determinism-replays", 20)
    ctx.total["counters"]["S3/delivery/callback"] = ctx.counter("S3a/delivery/callback")
    ctx.total["counters"]["S3/delivery/queued"] = (ctx.counter("S3a/delivery/queued-at-end")
                                                   + ctx.counter("S3b/delivery/queued-at-end"))
    ctx.require("S3/delivery/callback", 1)
    ctx.require("S3/delivery/queued", 1)
    ctx.require("S4/nb-empty", 1)
    ctx.require("S4/nb-message", 1)
    ctx.require("S6b/nb-empty", 1)
    ctx.require("S6a/poll-rounds", 1)
    ctx.require("S6b/poll-rounds", 1)
    ctx.require("S7/poll-rounds", 1)
    ctx.require("S7/nb-empty", 1)


def replay(case, part):
    """Re-runs the recorded schedule.  Deviations are indexed by decision number, so on a tree whose traced lines changed the
    recorded schedule may not exist any more; then the scenario is re-explored up to the recorded number of deviations."""
    import sys
    scen = case["scenario"]
    devs = [list(d) for d in case["devs"]]
    sched.install_quiet_abort()
    try:
        res = sched.run_twice(lambda d: run_schedule(scen, d, trace=True, reduce=False), devs)
    except sched.Nondeterminism:
        raise
    except sched.ScheduleError as exc:
        print(f"note: the recorded schedule does not exist on this tree ({exc}); re-exploring {scen} with <= "
              f"{case.get('deviations', 2)} deviations", file=sys.stderr)
        obs = {"all": set(), "low": {}}
        sched.explore(lambda d: run_schedule(scen, d), [([], 0)], int(case.get("deviations", 2)),
                      lambda r, d: _record(scen, MAIN, r, d, part, obs, 0), sched.Stats(), det_first=2)
        part["violations"].sort(key=lambda v: (v["case"]["deviations"], len(v["case"]["devs"])))
        return
    for fp, what, oracle in judge(scen, res, devs, part):
        add_violation(part, fp, f"{scen}: {what}", case, _detail(res, res, oracle))
