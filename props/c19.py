"""C19 — float angles are approximated within tolerance by encodable rotations.

Honest scope: "all finite doubles" cannot be enumerated.  The deciding step is exhaustive over
a stated LATTICE of angles x 9 tolerances (see RULE); seeded supplementary samples are
reported separately and labelled as such.
"""
from __future__ import annotations

import math
import random
import signal
from fractions import Fraction
from typing import Any, List

import numpy as np

from mc import qsim, simctl, world
from mc.report import guard_harness as _guard
from mc.report import add_sample, add_violation, count, new_part

LEVEL = "exploration"
RULE = ("angles: every k*pi/2^m for m<=10, |k|<=2^(m+2) (negative, beyond 2 pi, all dyadic multiples), each also +-1 ulp and +-tol; "
        "{0, 2 pi} +- {1e-17,...,1e-3}; uniform grid of 2^12 (quick) / 2^16 (thorough) points on [-4 pi, 4 pi]; x tolerances "
        "1e-1..1e-9; oracle: terminates, 0<=n<=255 and 0<=d<=255 for every step, exact rational sum * pi within tol of the angle "
        "modulo 2 pi; SDK sublattice: q.rot_X/Y/Z(angle=) emits exactly those steps and the state-vector effect is the rotation to "
        "that accuracy; sequences of 2-3 angle rotations on one connection (5 bases x 11 offsets from 0 to 1e-2 in both orders, the same "
        "angle on two axes, a +2 pi and a negated repeat): each rotation within 1e-4 of its own angle; distinct = distinct (angle, tol); non-trivial = angle not a multiple of 2 pi; the seeded supplementary "
        "samples (VERIF_SEED) are counted separately in coverage.supplementary_samples")
ASSUMPTIONS = ["finite lattice of doubles, not all doubles", "float slack 1e-12 on the modular distance"]

TOLS = [10.0 ** -k for k in range(1, 10)]
TWO_PI = 2 * math.pi


class _Timeout(Exception):
    pass


def _alarm(signum, frame):
    raise _Timeout()


def moddist(a: float, b: float) -> float:
    d = math.fmod(a - b, TWO_PI)
    if d < 0:
        d += TWO_PI
    return min(d, TWO_PI - d)


def check_angle(angle: float, tol: float, part) -> bool:
    from netqasm.sdk.toolbox import get_angle_spec_from_float
    case = {"angle": angle, "angle_hex": float(angle).hex(), "tol": tol}
    try:
        nds = get_angle_spec_from_float(angle, tol=tol)
    except _Timeout:
        raise
    except Exception as exc:
        _guard(exc)
        add_violation(part, "raises", f"get_angle_spec_from_float raised {type(exc).__name__}: {exc}", case)
        return False
    if len(nds) > 64:
        add_violation(part, "too-many-steps", f"{len(nds)} rotation steps for one angle", case)
        return False
    for n, d in nds:
        if not (isinstance(n, (int, np.integer)) and isinstance(d, (int, np.integer)) and 0 <= n <= 255 and 0 <= d <= 255):
            add_violation(part, "step-not-encodable", f"step (n={n}, d={d}) does not fit the 8-bit operand fields", case, {"steps": nds})
            return False
    total = sum((Fraction(int(n), 2 ** int(d)) for n, d in nds), Fraction(0))
    approx = float(total) * math.pi
    err = moddist(approx, angle)
    if err > tol + 1e-12:
        cause = "dropped-small-steps" if tol <= 1e-7 and err < 3e-7 else ("tolerance-on-angle-over-pi" if err <= math.pi * tol + 1e-12 else "other")
        add_violation(part, f"outside-tolerance/{cause}", f"steps add up to an angle {err:.3e} away from the requested one (tol {tol:g})",
                      case, {"steps": [[int(n), int(d)] for n, d in nds], "error": err})
        return False
    return True


def lattice(tier: str) -> List[float]:
    pts = set()
    for m in range(0, 11):
        for k in range(-(2 ** (m + 2)), 2 ** (m + 2) + 1):
            pts.add(k * math.pi / 2 ** m)
    for base in (0.0, TWO_PI):
        for e in range(3, 18):
            pts.add(base + 10.0 ** -e)
            pts.add(base - 10.0 ** -e)
    g = 2 ** 12 if tier == "quick" else 2 ** 16
    for i in range(g + 1):
        pts.add(-4 * math.pi + 8 * math.pi * i / g)
    return sorted(pts)


def shard_lattice(shard):
    _, tier, idx, nshards = shard
    part = new_part()
    pts = lattice(tier)[idx::nshards]
    signal.signal(signal.SIGALRM, _alarm)
    signal.alarm(600)
    try:
        for a in pts:
            variants = {a, math.nextafter(a, math.inf), math.nextafter(a, -math.inf)}
            for tol in TOLS:
                for v in sorted(variants | {a + tol, a - tol}):
                    part["evals"] += 1
                    part["distinct"] += 1 if moddist(v, 0.0) > 0 else 0
                    check_angle(v, tol, part)
    except _Timeout:
        add_violation(part, "non-termination", "angle decomposition did not terminate within the time limit", {"shard": idx})
    finally:
        signal.alarm(0)
    count(part, "lattice-angles", len(pts))
    if idx == 0:
        from netqasm.sdk.toolbox import get_angle_spec_from_float
        add_sample(part, {"angle": 0.3, "tol": 1e-6, "steps": [[int(n), int(d)] for n, d in get_angle_spec_from_float(0.3, 1e-6)]})
    return part


def shard_supplementary(shard):
    _, seed = shard
    part = new_part()
    rnd = random.Random(seed)
    for _ in range(2000):
        a = rnd.uniform(-50, 50) if rnd.random() < 0.8 else rnd.uniform(-1e6, 1e6)
        tol = rnd.choice(TOLS)
        count(part, "supplementary-samples")
        check_angle(a, tol, part)
    return part


def shard_sdk(shard):
    """rot_X/Y/Z(angle=...) through the full pipeline: emitted steps and state-vector effect."""
    from netqasm.sdk.qubit import Qubit
    from netqasm.sdk.toolbox import get_angle_spec_from_float
    _, axis = shard
    part = new_part()
    angles = [k * math.pi / 8 for k in range(-16, 33)] + [0.1, 0.3, 1.0, 2.5, -0.7, 3.0, 6.2, 6.283, 1e-3, 1e-5, TWO_PI - 1e-5, -1e-17]
    for a in angles:
        part["evals"] += 1
        part["distinct"] += 1
        case = {"sdk": f"rot_{axis.upper()}", "angle": a}
        world.reset()
        ctrl, conn = simctl.make_pair()
        try:
            q = Qubit(conn)
            q.H()
            getattr(q, f"rot_{axis.upper()}")(angle=a)
            conn.flush()
        except Exception as exc:
            _guard(exc)
            add_violation(part, "sdk-raises", f"rot_{axis.upper()}(angle={a}) raised {type(exc).__name__}: {str(exc)[:150]}", case)
            continue
        steps = [(int(n), int(d)) for n, d in get_angle_spec_from_float(a)]
        emitted = [(t[2], t[3]) for t in ctrl.executor.gate_trace if t[0] == f"rot_{axis}"]
        if emitted != steps:
            add_violation(part, "sdk-steps", "SDK did not emit exactly one rotation instruction per step", case,
                          {"steps": steps, "emitted": emitted})
            continue
        ex = ctrl.executor
        phys = ex._qubit_unit_modules[conn.app_id][q.qubit_id]
        got = ex.qs.vector([phys])
        want = qsim.rot(axis, a) @ (qsim.H @ np.array([1, 0], dtype=complex))
        fid = abs(np.vdot(want, got))
        if fid < math.cos(1e-4 / 2 * 1.0) - 1e-9 and fid < 1 - 1e-8:
            add_violation(part, "sdk-state", "emitted rotation sequence does not implement the requested rotation to the default "
                          "tolerance", case, {"fidelity": fid, "emitted": emitted})
    count(part, "sdk-angles", len(angles))
    return part


PAIR_BASES = [1.0, 0.3, math.pi / 8, 0.0, -0.7]
PAIR_DELTAS = [0.0, 1e-5, -1e-5, 2e-4, -2e-4, 4e-4, -4e-4, 1e-3, -1e-3, 1e-2, -1e-2]


def _pair_histories(axis):
    """ordered pairs of rotations issued on ONE connection: near-coincident angles in both orders, the same angle on two axes"""
    other = {"x": "z", "y": "x", "z": "y"}[axis]
    for b in PAIR_BASES:
        for dl in PAIR_DELTAS:
            yield [(axis, b), (axis, b + dl)]
            if dl:
                yield [(axis, b + dl), (axis, b)]
        yield [(axis, b), (other, b)]
        yield [(axis, b), (axis, b + TWO_PI), (axis, -b)]


def shard_sdk_history(shard):
    """Several angle rotations on one connection (one builder): every rotation must approximate ITS OWN angle, whatever was
    requested before it (a decomposition remembered from an earlier, nearby angle is not within tolerance of this one)."""
    from netqasm.sdk.qubit import Qubit
    _, axis = shard
    part = new_part()
    n = 0
    for hist in _pair_histories(axis):
        n += 1
        part["evals"] += 1
        part["distinct"] += 1
        case = {"sdk_history": [[ax, a] for ax, a in hist]}
        world.reset()
        ctrl, conn = simctl.make_pair()
        try:
            qs = []
            for ax, a in hist:
                q = Qubit(conn)
                q.H()
                getattr(q, f"rot_{ax.upper()}")(angle=a)
                qs.append(q)
            conn.flush()
        except Exception as exc:
            _guard(exc)
            add_violation(part, "sdk-history-raises", f"{case['sdk_history']} raised {type(exc).__name__}: {str(exc)[:150]}", case)
            continue
        ex = ctrl.executor
        for i, ((ax, a), q) in enumerate(zip(hist, qs)):
            phys = ex._qubit_unit_modules[conn.app_id][q.qubit_id]
            emitted = [(t[2], t[3]) for t in ex.gate_trace if t[0] == f"rot_{ax}" and t[1] == q.qubit_id]
            total = sum((Fraction(int(nn), 2 ** int(dd)) for nn, dd in emitted), Fraction(0))
            err = moddist(float(total) * math.pi, a)
            want = qsim.rot(ax, a) @ (qsim.H @ np.array([1, 0], dtype=complex))
            rho = ex.qs.reduced([phys])
            fid = math.sqrt(max(0.0, float(np.real(np.vdot(want, rho @ want)))))
            if err > 1e-4 + 1e-12 or (fid < math.cos(1e-4 / 2) - 1e-9 and fid < 1 - 1e-8):
                add_violation(part, "sdk-history", f"rotation #{i} of a sequence on one connection is not within the default tolerance "
                              f"of its own angle", case, {"index": i, "angle": a, "emitted": emitted, "error": err, "fidelity": fid})
                break
    count(part, "sdk-histories", n)
    return part


def _dispatch(shard):
    return {"lat": shard_lattice, "sup": shard_supplementary, "sdk": shard_sdk, "sdkh": shard_sdk_history}[shard[0]](shard)


def run(ctx):
    n = 64
    shards: List[Any] = [("lat", ctx.tier, i, n) for i in range(n)] + [("sdk", a) for a in "xyz"] + [("sdkh", a) for a in "xyz"] + [("sup", ctx.seed)]
    ctx.pmap(_dispatch, shards)
    ctx.require("lattice-angles", 8000)
    ctx.require("sdk-angles", 100)
    ctx.require("sdk-histories", 300)
    ctx.extra["supplementary_samples"] = ctx.counter("supplementary-samples")
    ctx.extra["tolerances"] = TOLS


def replay(case, part):
    if "sdk_history" in case:
        part["violations"].extend(shard_sdk_history(("sdkh", case["sdk_history"][0][0]))["violations"])
    elif "sdk" in case:
        part["violations"].extend(shard_sdk(("sdk", case["sdk"][-1].lower()))["violations"])
    elif "angle" in case:
        check_angle(float.fromhex(case["angle_hex"]) if "angle_hex" in case else case["angle"], case["tol"], part)
