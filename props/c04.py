"""C04 — executor implements the NetQASM classical semantics and faults precisely.

Two explorations on the real executor, both compared step by step with the independent
reference VM (mc/refvm.py):

1. explicit-state BFS over histories of single-instruction subroutines against one
   application state (canonical hashing of registers, arrays, shared memory and
   allocation; non-initial states for free);
2. all whole programs up to N instructions over a menu with every branch kind and
   every jump target 0..N+1, run under a step horizon.
"""
from __future__ import annotations

import itertools
import json
import re
from typing import Any, Dict, List, Optional, Tuple

from mc import refvm, simctl, world
from mc.report import guard_harness as _guard
from mc.report import add_sample, add_violation, count, new_part

LEVEL = "model_checking"
RULE = ("(1) BFS over histories of single-instruction subroutines from a 45-instruction menu, state = (registers, arrays, "
        "shared memory, allocated virtual qubits), hashed canonically, each transition executed on the real executor and on "
        "the reference VM; (2) every program of <= N instructions over a menu with all six branches and jmp to every target "
        "0..N+1, compared on executed-pc trace, final state, fault line; (3) four programs (moves/returns, arithmetic, array "
        "index and bounds, branches) for every ordered pair of the 64 registers; distinct = distinct states / distinct programs; "
        "non-trivial = transition or program on which the reference defines the outcome (not 'unspecified')")
ASSUMPTIONS = ["reference semantics: DESIGN.md appendix B (negative indices, arithmetic on never-written registers and negative "
               "jump targets are 'unspecified' and excluded, counted in the evidence)",
               "the executor is driven through SimExecutor, which overrides only no-op/abstract hooks and adds a step horizon"]

R = lambda i: ("r", "R", i)
C = lambda i: ("r", "C", i)
Q = lambda i: ("r", "Q", i)
M = lambda i: ("r", "M", i)
APP = 0
UNIT = 2

SETUP = [("set", [R(0), 0]), ("set", [R(1), 1]), ("set", [C(0), 2]), ("set", [Q(0), 0])]

EVENT_MENU: List[Tuple[str, List[Any]]] = [
    ("set", [R(0), 0]), ("set", [R(0), 1]), ("set", [R(0), 2]), ("set", [R(0), -1]),
    ("set", [R(1), 0]), ("set", [R(1), 1]), ("set", [R(1), 3]),
    ("set", [C(0), 0]), ("set", [C(0), 2]), ("set", [Q(0), 1]), ("set", [Q(0), 5]), ("set", [M(0), 1]),
    ("add", [R(0), R(0), R(1)]), ("add", [R(0), R(0), R(0)]), ("sub", [R(1), R(0), R(1)]), ("sub", [R(0), R(1), C(0)]),
    ("addm", [R(0), R(0), R(1), C(0)]), ("subm", [R(0), R(0), R(1), C(0)]), ("addm", [R(1), R(0), R(0), R(1)]),
    ("subm", [R(0), R(1), R(0), R(0)]),
    ("array", [R(1), ("addr", 0)]), ("array", [C(0), ("addr", 1)]),
    ("store", [R(0), ("entry", 0, R(1))]), ("store", [M(0), ("entry", 0, R(0))]), ("store", [C(0), ("entry", 1, R(1))]),
    ("load", [R(1), ("entry", 0, R(0))]), ("load", [C(0), ("entry", 1, R(1))]), ("load", [M(1), ("entry", 0, R(1))]),
    ("undef", [("entry", 0, R(1))]), ("undef", [("entry", 1, R(0))]),
    ("lea", [R(0), ("addr", 1)]), ("lea", [M(0), ("addr", 7)]),
    ("ret_reg", [R(0)]), ("ret_reg", [M(0)]), ("ret_reg", [C(0)]),
    ("ret_arr", [("addr", 0)]), ("ret_arr", [("addr", 1)]),
    ("qalloc", [Q(0)]), ("qfree", [Q(0)]), ("qalloc", [R(1)]), ("qfree", [R(1)]),
    ("wait_all", [("slice", 0, R(0), R(1))]), ("wait_any", [("slice", 0, R(0), R(1))]), ("wait_single", [("entry", 0, R(1))]),
    ("wait_all", [("slice", 1, R(0), C(0))]), ("wait_any", [("slice", 1, R(0), R(1))]), ("wait_any", [("slice", 0, R(1), C(0))]),
]


# ----------------------------------------------------------------------------- neutral -> real
def to_real(prog, flavour=None):
    from netqasm.lang.encoding import RegisterName
    from netqasm.lang.instr.flavour import VanillaFlavour
    from netqasm.lang.operand import Address, ArrayEntry, ArraySlice, Immediate, Register
    f = flavour or VanillaFlavour()

    def conv(o):
        if isinstance(o, int):
            return Immediate(o)
        if o[0] == "r":
            return Register(RegisterName[o[1]], o[2])
        if o[0] == "addr":
            return Address(o[1])
        if o[0] == "entry":
            return ArrayEntry(Address(o[1]), conv(o[2]))
        if o[0] == "slice":
            return ArraySlice(Address(o[1]), conv(o[2]), conv(o[3]))
        raise TypeError(o)

    out = []
    for mn, ops in prog:
        cls = f.name_map[mn]
        out.append(cls.from_operands([conv(o) for o in ops]))
    return out


def fresh_executor(horizon=200):
    world.reset()
    ex = simctl.SimExecutor(name="ctrl", node_id=0, horizon=horizon)
    ex.network_stack = simctl.ScriptedStack()
    ex.init_new_application(app_id=APP, max_qubits=UNIT)
    return ex


def check_setup_state(ex, part) -> None:
    """After SETUP exactly the four registers it sets are defined (the reference state of every exploration is read from the
    executor, so a register file that makes never-written registers look defined would otherwise poison the reference too)."""
    snap = snapshot(ex)
    want = {"R0": 0, "R1": 1, "C0": 2, "Q0": 0}
    if snap["regs"] != want or snap["shared_regs"]:
        add_violation(part, "undefined-register-has-a-value", f"after a subroutine that sets R0, R1, C0, Q0 the application's registers "
                      f"read {snap['regs']} (shared: {snap['shared_regs']}); registers nothing has written must be undefined",
                      {"kind": "program", "setup": SETUP, "program": []})


WIRE = False      # values_shard: the subroutine reaches the executor as the controller receives it (encoded, decoded)


def run_real(ex, prog, trace: Optional[list] = None):
    """Executes one subroutine; returns ('done',) | ('fault', line|None, message) | ('blocked',) | ('horizon',)."""
    from netqasm.lang.subroutine import Subroutine
    sub = Subroutine(instructions=to_real(prog), app_id=APP, netqasm_version=(0, 0))
    if WIRE:
        from netqasm.lang.parsing.binary import deserialize
        sub = deserialize(bytes(sub))
    ex.steps = 0
    ex.wait_polls = 0
    if trace is not None:
        def hook(sid, cmd):
            trace.append(ex._program_counters[sid])
        ex.step_hook = hook
    try:
        for _ in ex.execute_subroutine(sub):
            pass
    except simctl.Blocked:
        return ("blocked",)
    except simctl.Horizon:
        return ("horizon",)
    except Exception as exc:
        _guard(exc)
        m = re.match(r"At line (\d+):", str(exc))
        return ("fault", int(m.group(1)) if m else None, f"{type(exc).__name__}: {(str(exc).splitlines() or [""])[0][:160]}")
    finally:
        ex.step_hook = None
    return ("done",)


def snapshot(ex):
    return ex.classical_snapshot(APP)


def ref_from_snapshot(snap) -> refvm.RefState:
    s = refvm.RefState(unit_size=UNIT)
    for k, v in snap["regs"].items():
        s.regs[(k[0], int(k[1:]))] = v
    s.arrays = {int(a): list(v) for a, v in snap["arrays"].items()}
    for k, v in snap["shared_regs"].items():
        s.shared_regs[(k[0], int(k[1:]))] = v
    s.shared_arrays = {int(a): list(v) for a, v in snap["shared_arrays"].items()}
    s.alloc = set(snap["alloc"])
    return s


def key_of(snap) -> str:
    return json.dumps(snap, sort_keys=True)


def invariants(ex, part, case) -> None:
    """used == mapped, injective (also C13's business; cheap here)."""
    um = ex._qubit_unit_modules[APP]
    mapped = [p for p in um if p is not None]
    if len(set(mapped)) != len(mapped) or set(mapped) != set(ex._used_physical_qubit_addresses):
        add_violation(part, "qubit-bookkeeping", "used physical set differs from mapped physical qubits", case,
                      {"unit_module": um, "used": sorted(ex._used_physical_qubit_addresses)})


# ----------------------------------------------------------------------------- one compared transition
def compare_step(ex, prog, ref_state: refvm.RefState, case, part, label: str, trace_expected=True):
    """Runs `prog` on the real executor (already in the state matching ref_state) and on the reference.
    Returns (outcome_class, new_ref_state or None)."""
    vm = refvm.RefVM(prog, ref_state.copy())
    rst = vm.run(max_steps=40)
    real_trace: List[int] = []
    before = snapshot(ex)
    st = run_real(ex, prog, real_trace)
    after = snapshot(ex)
    kind = rst[0]
    mn = prog[vm.pc][0] if vm.pc < len(prog) and kind not in ("done", "horizon") else (prog[0][0] if prog else "-")
    if kind in ("unspecified", "unsupported"):
        count(part, "class/unspecified")
        # whether the executor faults here is left open - but IF it faults, the fault must name the instruction that the
        # reference stopped at (a fault without a line, or with another line, is not a precise fault)
        if kind == "unspecified" and st[0] == "fault" and vm.pc < len(prog) and real_trace[:len(vm.trace)] == vm.trace:
            if st[1] != vm.pc:
                add_violation(part, f"fault-line/{mn}", f"fault reported at line {st[1]}, the faulting instruction is line {vm.pc} "
                              "(outcome otherwise unspecified)", case, {"message": st[2], "ref_trace": vm.trace, "real_trace": real_trace})
            else:
                count(part, "unspecified-fault-line-ok")
        return "unspecified", None
    if kind == "horizon":
        count(part, "class/horizon")
        # the reference is still running after its step bound: the executor must have executed at least the same prefix
        if len(real_trace) < len(vm.trace) or real_trace[:len(vm.trace)] != vm.trace:
            add_violation(part, f"trace/{label}", "executed instruction sequence differs from the reference (looping program)",
                          case, {"real": st, "ref_trace": vm.trace[:40], "real_trace": real_trace[:40]})
        return "horizon", None
    expect_state = vm.s.snapshot()
    if kind == "done":
        count(part, "class/normal")
        if st[0] != "done":
            add_violation(part, f"unexpected-{st[0]}/{mn}", f"executor reports {st[0]} where the semantics define a normal execution",
                          case, {"real": st, "ref_trace": vm.trace, "real_trace": real_trace})
            return "bad", None
        if real_trace != vm.trace:
            add_violation(part, f"trace/{label}", "executed instruction sequence (program counter) differs from the reference", case,
                          {"ref_trace": vm.trace, "real_trace": real_trace})
            return "bad", None
        if after != expect_state:
            diff = {k: {"real": after[k], "ref": expect_state[k]} for k in after if after[k] != expect_state[k]}
            add_violation(part, f"state/{_blame(prog, vm)}", "state after execution differs from the instruction semantics", case, diff)
            return "bad", None
        return "normal", vm.s
    if kind == "blocked":
        count(part, "class/blocked")
        if st[0] != "blocked":
            add_violation(part, f"wait-resumed/{mn}", "a wait instruction completed although the awaited entries are undefined "
                          "(or the executor faulted)", case, {"real": st})
            return "bad", None
        if real_trace[:len(vm.trace) + 1] != vm.trace + [vm.pc]:
            add_violation(part, f"trace/{label}", "executed instruction sequence differs from the reference", case,
                          {"ref_trace": vm.trace + [vm.pc], "real_trace": real_trace})
        if after != expect_state:
            add_violation(part, f"state/{mn}", "state at a blocked wait differs from the reference", case,
                          {k: {"real": after[k], "ref": expect_state[k]} for k in after if after[k] != expect_state[k]})
        return "blocked", None
    if kind == "fault":
        required, reason = rst[1], rst[2]
        count(part, "class/fault-required" if required else "class/fault-optional")
        if st[0] != "fault":
            if required:
                add_violation(part, f"missing-fault/{mn}/{reason.replace(' ', '-')}",
                              f"executor does not fault on: {reason}", case, {"real": st, "pc": vm.pc})
                return "bad", None
            return "fault-optional-not-raised", None
        line = st[1]
        if line != vm.pc:
            add_violation(part, f"fault-line/{mn}", f"fault reported at line {line}, the faulting instruction is line {vm.pc}",
                          case, {"message": st[2], "ref_trace": vm.trace, "real_trace": real_trace})
            return "bad", None
        if real_trace[:len(vm.trace) + 1] != vm.trace + [vm.pc]:
            add_violation(part, f"trace/{label}", "executed instruction sequence before the fault differs from the reference", case,
                          {"ref_trace": vm.trace + [vm.pc], "real_trace": real_trace})
            return "bad", None
        if after != expect_state:
            add_violation(part, f"fault-partial-update/{mn}", "state after a fault is not the state before the faulting instruction",
                          case, {k: {"real": after[k], "ref": expect_state[k]} for k in after if after[k] != expect_state[k]})
            return "bad", None
        return "fault", vm.s
    raise AssertionError(rst)


def _blame(prog, vm) -> str:
    return prog[vm.trace[-1]][0] if vm.trace else "-"


# ----------------------------------------------------------------------------- part 1: BFS over histories
def build(history: List[int]):
    ex = fresh_executor()
    st = run_real(ex, SETUP)
    assert st == ("done",), st
    for e in history:
        st = run_real(ex, [EVENT_MENU[e]])
    return ex


def expand(shard):
    """Expands a batch of frontier states: for each, every menu event."""
    part = new_part()
    out = []
    for history in shard:
        for e, instr in enumerate(EVENT_MENU):
            ex = build(history)
            ref_state = ref_from_snapshot(snapshot(ex))
            case = {"kind": "history", "setup": SETUP, "history": [EVENT_MENU[h] for h in history], "event": instr,
                    "history_idx": list(history), "event_idx": e}
            part["evals"] += 1
            part["transitions"] += 1
            cls, new_ref = compare_step(ex, [instr], ref_state, case, part, instr[0])
            count(part, f"event/{instr[0]}")
            invariants(ex, part, case)
            if cls in ("normal", "fault"):
                out.append((key_of(snapshot(ex)), list(history) + [e]))
    part["_succ"] = out
    return part


def bfs(ctx, depth: int, max_states: int):
    root = build([])
    seen = {key_of(snapshot(root))}
    frontier = [[]]
    ctx.total["states"] += 1
    d = 0
    closed = False
    while frontier and d < depth:
        batch = max(1, len(frontier) // (ctx.jobs * 4) + 1)
        shards = [frontier[i:i + batch] for i in range(0, len(frontier), batch)]
        results = ctx.pmap(expand, shards)
        nxt = []
        for r in results:
            for k, h in r.pop("_succ"):
                if k not in seen:
                    seen.add(k)
                    nxt.append(h)
        ctx.total["states"] += len(nxt)
        ctx.total["distinct"] += len(nxt)
        d += 1
        frontier = nxt
        if len(seen) > max_states:
            ctx.total["caps"].append(f"bfs stopped after depth {d}: more than {max_states} states")
            break
    if not frontier:
        closed = True
    ctx.extra["bfs_depth_completed"] = d
    ctx.extra["bfs_graph_closed"] = closed
    ctx.extra["bfs_frontier_left"] = len(frontier)
    if frontier:
        ctx.total["samples"].append({"history": [EVENT_MENU[e] for e in frontier[0]]})


# ----------------------------------------------------------------------------- part 2: whole programs
def program_menu(n: int, reduced: bool):
    base = [("set", [R(0), 0]), ("set", [R(0), 2]), ("set", [R(1), 1]),
            ("add", [R(0), R(0), R(1)]), ("sub", [R(0), R(0), R(1)]), ("addm", [R(0), R(0), R(1), C(0)]),
            ("store", [R(0), ("entry", 0, R(1))]), ("load", [R(1), ("entry", 0, R(0))]),
            ("array", [C(0), ("addr", 0)]), ("ret_reg", [R(0)]), ("ret_arr", [("addr", 0)]),
            ("qalloc", [Q(0)]), ("qfree", [Q(0)])]
    if not reduced:
        base += [("set", [R(0), 1]), ("undef", [("entry", 0, R(0))]), ("lea", [R(1), ("addr", 0)]),
                 ("subm", [R(1), R(1), R(0), C(0)]), ("wait_single", [("entry", 0, R(0))])]
    targets = range(0, n + 2)
    br = []
    for t in targets:
        br.append(("jmp", [t]))
        br.append(("bez", [R(0), t]))
        br.append(("bnz", [R(0), t]))
        br.append(("beq", [R(0), R(1), t]))
        br.append(("bne", [R(0), R(1), t]))
        br.append(("blt", [R(0), R(1), t]))
        br.append(("bge", [R(0), R(1), t]))
    return base + br


def programs_shard(shard):
    n, first, reduced = shard
    part = new_part()
    menu = program_menu(n, reduced)
    rest = itertools.product(range(len(menu)), repeat=n - 1)
    ex = None
    for tail in rest:
        prog = [menu[first]] + [menu[i] for i in tail]
        ex = fresh_executor()
        st = run_real(ex, SETUP)
        ref_state = ref_from_snapshot(snapshot(ex))
        case = {"kind": "program", "setup": SETUP, "program": prog}
        part["evals"] += 1
        cls, _ = compare_step(ex, prog, ref_state, case, part, "program")
        part["transitions"] += 1
        if cls != "unspecified":
            part["distinct"] += 1
        for mn, _ops in prog:
            count(part, f"prog-instr/{mn}")
        invariants(ex, part, case)
    if first == 0:
        add_sample(part, {"program": [menu[first]] + [menu[1]] * (n - 1)})
    return part


def regfile_shard(shard):
    """Every register of every bank (4 x 16), in every operand role, against every other register: the alphabets above use a
    handful of low-numbered registers, so the top of the register file and aliasing between registers are covered here."""
    _, bank, idx = shard
    part = new_part()
    ex0 = fresh_executor()
    run_real(ex0, SETUP)
    check_setup_state(ex0, part)
    a = ("r", bank, idx)
    for b in [("r", bk, i) for bk in "RCQM" for i in range(16)]:
        progs = [
            [("set", [a, 7]), ("set", [b, 9]), ("ret_reg", [a]), ("ret_reg", [b])],
            [("set", [a, 1]), ("set", [b, 2]), ("add", [a, a, b]), ("sub", [b, a, b]), ("addm", [a, a, b, b]), ("ret_reg", [a])],
            [("set", [a, 0]), ("set", [b, 2]), ("array", [b, ("addr", 3)]), ("store", [b, ("entry", 3, a)]), ("load", [a, ("entry", 3, a)]),
             ("lea", [b, ("addr", 3)]), ("ret_arr", [("addr", 3)]), ("wait_all", [("slice", 3, a, b)])],
            [("set", [a, 1]), ("set", [b, 1]), ("beq", [a, b, 5]), ("set", [a, 5]), ("set", [b, 6]), ("blt", [a, b, 7]), ("set", [a, 8]),
             ("bnz", [a, 9]), ("set", [b, 3])],
        ]
        if b == a and (bank, idx) not in (("R", 0), ("R", 1), ("C", 0), ("Q", 0)):
            # the register was never written: whatever the executor does with it as an operand, a fault must name its line
            progs += [[("set", [R(0), 1]), (mn, ops)] for mn, ops in (
                ("add", [R(0), a, R(0)]), ("sub", [R(0), R(0), a]), ("addm", [R(0), R(0), R(0), a]), ("array", [a, ("addr", 3)]),
                ("store", [a, ("entry", 0, R(0))]), ("beq", [a, R(0), 0]), ("bnz", [a, 0]), ("ret_reg", [a]), ("qalloc", [a]))]
        for prog in progs:
            ex = fresh_executor()
            run_real(ex, SETUP)
            ref_state = ref_from_snapshot(snapshot(ex))
            case = {"kind": "program", "setup": SETUP, "program": prog}
            part["evals"] += 1
            cls, _ = compare_step(ex, prog, ref_state, case, part, "register-file")
            part["transitions"] += 1
            if cls != "unspecified":
                part["distinct"] += 1
                count(part, "register-file-programs")
    return part


VALUES = [0, 1, -1, 5, 255, 256, 257, 300, -300, 65536, 2 ** 31 - 1, -2 ** 31]


def values_shard(shard):
    """Register values outside the handful the alphabets use (beyond one byte, negative, the 32-bit ends), computed and
    loaded in different ways and then compared by every branch kind: the outcome depends on the numbers only.  The
    subroutines go through the wire form, as on a real controller."""
    global WIRE
    _, xi = shard
    part = new_part()
    x = VALUES[xi]
    WIRE = True
    try:
        for y in VALUES:
            progs = []
            for mn in ("beq", "bne", "blt", "bge"):
                # both values loaded by set; one of them computed (x = (x - 1) + 1 for the first operand)
                progs.append([("set", [R(2), x]), ("set", [R(3), y]), (mn, [R(2), R(3), 4]), ("set", [C(1), 9]), ("ret_reg", [R(2)])])
                if -2 ** 31 < x:
                    progs.append([("set", [R(2), x - 1]), ("set", [R(1), 1]), ("add", [R(2), R(2), R(1)]), ("set", [R(3), y]),
                                  (mn, [R(2), R(3), 6]), ("set", [C(1), 9]), ("ret_reg", [R(2)])])
            # through an array entry and back
            progs.append([("set", [R(1), 1]), ("array", [R(1), ("addr", 5)]), ("set", [R(0), 0]), ("set", [R(2), x]),
                          ("store", [R(2), ("entry", 5, R(0))]), ("load", [R(3), ("entry", 5, R(0))]), ("set", [R(2), y]),
                          ("beq", [R(2), R(3), 9]), ("set", [C(1), 9]), ("ret_arr", [("addr", 5)])])
            if y == VALUES[0]:
                for mn in ("bez", "bnz"):
                    progs.append([("set", [R(2), x]), (mn, [R(2), 3]), ("set", [C(1), 9]), ("ret_reg", [R(2)])])
            for prog in progs:
                ex = fresh_executor()
                run_real(ex, SETUP)
                ref_state = ref_from_snapshot(snapshot(ex))
                case = {"kind": "program", "setup": SETUP, "program": prog, "wire": True}
                part["evals"] += 1
                cls, _ = compare_step(ex, prog, ref_state, case, part, "values")
                part["transitions"] += 1
                if cls == "normal":
                    part["distinct"] += 1
                    count(part, "value-programs")
    finally:
        WIRE = False
    return part


def redeclare_shard(shard):
    """An array address declared again with another length (shorter, equal, longer), returned to the host before and after:
    the host-visible array is the controller's array, with nothing left over from the earlier declaration."""
    part = new_part()
    for l1 in (1, 2, 3, 4):
        for l2 in (1, 2, 3, 4):
            for fill in (False, True):
                for split in (False, True):
                    first = [("set", [R(1), l1]), ("array", [R(1), ("addr", 3)])]
                    if fill:
                        for k in range(l1):
                            first += [("set", [R(0), k]), ("set", [C(0), 10 + k]), ("store", [C(0), ("entry", 3, R(0))])]
                    first += [("ret_arr", [("addr", 3)])]
                    second = [("set", [R(1), l2]), ("array", [R(1), ("addr", 3)]), ("set", [R(0), 0]), ("set", [C(0), 21]),
                              ("store", [C(0), ("entry", 3, R(0))]), ("ret_arr", [("addr", 3)])]
                    ex = fresh_executor()
                    run_real(ex, SETUP)
                    progs = [first, second] if split else [first + second]
                    for prog in progs:
                        ref_state = ref_from_snapshot(snapshot(ex))
                        case = {"kind": "program", "setup": SETUP, "program": prog, "after": (first if (split and prog is second) else [])}
                        part["evals"] += 1
                        cls, _ = compare_step(ex, prog, ref_state, case, part, "array-redeclared")
                        part["transitions"] += 1
                        if cls == "normal":
                            part["distinct"] += 1
                            count(part, "array-redeclared-programs")
    return part


def _det(hist):
    return key_of(snapshot(build(hist)))


def run(ctx):
    ctx.determinism("history replay", _det, [[i, (i * 7) % len(EVENT_MENU), (i * 13 + 5) % len(EVENT_MENU)] for i in range(len(EVENT_MENU))])
    if ctx.tier == "quick":
        depth, max_states, plens = 4, 60000, [(1, False), (2, False), (3, True)]
    else:
        depth, max_states, plens = 6, 400000, [(1, False), (2, False), (3, False), (4, True)]
    bfs(ctx, depth, max_states)
    shards = []
    for n, reduced in plens:
        for first in range(len(program_menu(n, reduced))):
            shards.append((n, first, reduced))
    res = ctx.pmap(programs_shard, shards)
    res += ctx.pmap(regfile_shard, [("regs", bk, i) for bk in "RCQM" for i in range(16)])
    res += ctx.pmap(redeclare_shard, [("redeclare",)])
    res += ctx.pmap(values_shard, [("values", i) for i in range(len(VALUES))])
    ctx.require("value-programs", 1000)
    ctx.require("array-redeclared-programs", 64)
    ctx.require("register-file-programs", 64 * 64 * 2)
    ctx.total["states"] += sum(r["distinct"] for r in res)   # each non-unspecified program ends in one explored final state
    ctx.extra["program_lengths"] = [n for n, _ in plens]
    for mn in ("set", "add", "sub", "addm", "subm", "store", "load", "undef", "array", "lea", "ret_reg", "ret_arr", "qalloc",
               "qfree", "wait_all", "wait_any", "wait_single"):
        ctx.require(f"event/{mn}", 1)
    for mn in ("jmp", "bez", "bnz", "beq", "bne", "blt", "bge"):
        ctx.require(f"prog-instr/{mn}", 1)
    for cls in ("class/normal", "class/fault-required", "class/blocked", "class/horizon"):
        ctx.require(cls, 1)
    tot = sum(ctx.counter(c) for c in ("class/normal", "class/fault-required", "class/fault-optional", "class/blocked",
                                        "class/horizon", "class/unspecified"))
    ctx.extra["unspecified_fraction"] = round(ctx.counter("class/unspecified") / max(1, tot), 4)


def replay(case, part):
    def fix(prog):
        def f(o):
            if isinstance(o, list):
                return tuple(f(x) for x in o)
            return o
        return [(mn, [f(o) for o in ops]) for mn, ops in prog]
    if case["kind"] == "history":
        ex = fresh_executor()
        run_real(ex, SETUP)
        for instr in fix(case["history"]):
            run_real(ex, [instr])
        ref_state = ref_from_snapshot(snapshot(ex))
        ev = fix([case["event"]])
        compare_step(ex, ev, ref_state, case, part, ev[0][0])
        invariants(ex, part, case)
    else:
        global WIRE
        ex = fresh_executor()
        run_real(ex, SETUP)
        WIRE = bool(case.get("wire"))
        if case.get("after"):
            run_real(ex, fix(case["after"]))       # an earlier subroutine of the same application
        ref_state = ref_from_snapshot(snapshot(ex))
        try:
            compare_step(ex, fix(case["program"]), ref_state, case, part, "program")
        finally:
            WIRE = False
