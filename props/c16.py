"""C16 — operands the format cannot represent are rejected, never silently altered.

Deciding step: exhaustive enumeration of (route, flavour, instruction class, operand
field, out-of-range value, background) — routes: direct construction, text
assembler, SDK calls — with the oracle "encoding raises, or the bytes decode to
exactly the program that was asked for".
"""
from __future__ import annotations

from typing import Any, List

from mc import codec
from mc.report import guard_harness as _guard
from mc.report import add_sample, add_violation, count, new_part

LEVEL = "exploration"
RULE = ("route in {direct, direct after an earlier encoding of the same objects, text, sdk} x flavour x class x operand field x out-of-range value (every value of a band of 40-300 values on both "
        "sides of each range, and +-2^k, +-2^k+-1 up to 2^71) x two backgrounds for the other fields; header: app id / version bytes outside "
        "their widths; oracle: bytes() raises or deserialize(bytes) equals the requested program; distinct = distinct "
        "(route, flavour, mnemonic, field, value, background); every case is non-trivial (it has an unrepresentable operand)")
ASSUMPTIONS = ["register banks cannot be out of range (they are an Enum); only indices are varied",
               "SDK route uses netqasm.sdk.connection.DebugConnection (no controller needed: the property is about encoding)"]

FLAVOURS = ["vanilla", "nv", "reids"]
# every value of a contiguous band on both sides of each range (a check written with a mask, a bit length or an absolute value
# fails on a band, not on a point), plus powers of two and their neighbours far outside
def _far(lo_bits: int):
    out = []
    for k in range(lo_bits, 72):
        for v in (2 ** k, 2 ** k + 1, 2 ** k - 1, -(2 ** k), -(2 ** k) - 1, -(2 ** k) + 1):
            out.append(v)
    return out


OOR = {
    "reg": sorted(set(list(range(16, 80)) + list(range(-40, 0)) + [255, 256, 1000] + [v for v in _far(7) if abs(v) > 100][:60])),
    "imm8": sorted(set(list(range(256, 560)) + list(range(-300, 0)) + [v for v in _far(9) if not 0 <= v <= 255])),
    "int32": sorted(set(list(range(2 ** 31, 2 ** 31 + 40)) + list(range(2 ** 32 - 40, 2 ** 32 + 40)) +
                        list(range(-(2 ** 31) - 40, -(2 ** 31))) + list(range(-(2 ** 32) - 40, -(2 ** 32) + 40)) +
                        [v for v in _far(31) if not -(2 ** 31) <= v < 2 ** 31])),
}
KINDNAME = {"reg": "register-index", "imm8": "imm8", "int32": "int32"}


def judge(route: str, what: str, sub, flav: str, case, part, requested_app_id=None) -> None:
    """sub: a Subroutine object holding the requested (unrepresentable) program.  requested_app_id: the app id that was
    asked for, when it may differ from what the object now holds."""
    from netqasm.lang.parsing.binary import deserialize
    try:
        raw = bytes(sub)
    except Exception as exc:
        _guard(exc)
        count(part, f"rejected/{route}/{what}")
        return
    try:
        dec = deserialize(raw, codec.flavour(flav))
    except Exception as exc:
        _guard(exc)
        count(part, f"undecodable/{route}/{what}")   # bytes that nothing accepts: not a *valid-looking* program
        return
    want_app = sub.app_id if requested_app_id is None else requested_app_id
    same = (dec.instructions == sub.instructions and dec.app_id == want_app
            and tuple(dec.netqasm_version) == tuple(sub.netqasm_version))
    if same:
        count(part, f"represented/{route}/{what}")
        return
    add_violation(part, f"silently-altered/{route}/{what}",
                  f"{route}: an unrepresentable {what} is encoded without error and decodes to a different program", case,
                  {"requested": [str(i) for i in sub.instructions], "requested_app_id": sub.app_id,
                   "decoded": [str(i) for i in dec.instructions], "decoded_app_id": dec.app_id,
                   "decoded_version": list(dec.netqasm_version)})


def _field_kind_name(kinds, leaf_pos):
    """operand kind that owns leaf position `leaf_pos` (to tell address from integer)."""
    i = 0
    for k in kinds:
        n = len(codec.wiretable.LEAVES[k])
        if leaf_pos < i + n:
            if k in ("addr", "entry", "slice") and codec.wiretable.LEAVES[k][leaf_pos - i] == "int32":
                return "address"
            if k in ("entry", "slice"):
                return "array-index-register"
            return KINDNAME[codec.wiretable.LEAVES[k][leaf_pos - i]]
        i += n
    raise AssertionError


def _mutate_to(instr, fresh) -> bool:
    """change instr's operands in place to those of fresh (as the assembler and the transpiler do); False if immutable"""
    import dataclasses
    from netqasm.lang.operand import ArrayEntry, ArraySlice
    try:
        for fd in dataclasses.fields(type(instr))[3:]:
            cur, new = getattr(instr, fd.name), getattr(fresh, fd.name)
            if isinstance(cur, (ArrayEntry, ArraySlice)):
                for attr in ("address", "index", "start", "stop"):
                    if hasattr(cur, attr):
                        setattr(cur, attr, getattr(new, attr))
            else:
                setattr(instr, fd.name, new)
    except (AttributeError, TypeError):
        return False
    return True


def shard_direct(shard):
    from netqasm.lang.subroutine import Subroutine
    _, flav, mn = shard
    part = new_part()
    classes = {c.mnemonic: c for c in codec.live_classes(flav)}
    cls = classes[mn]
    kinds = codec.live_operand_kinds(cls)
    lk = codec.wiretable.leaf_kinds(kinds)
    for bgname, bg in (("low", codec.background_low(lk)), ("high", codec.background_high(lk))):
        for p, k in enumerate(lk):
            what = _field_kind_name(kinds, p)
            for v in OOR[k]:
                lv = list(bg)
                lv[p] = (lv[p][0], v) if k == "reg" else v
                part["evals"] += 1
                part["distinct"] += 1
                case = {"route": "direct", "flavour": flav, "mnemonic": mn, "leaves": [list(x) if isinstance(x, tuple) else x for x in lv],
                        "field": p, "value": v}
                try:
                    instr = codec.make_instr(cls, kinds, lv)
                    sub = Subroutine(instructions=[instr], app_id=1, netqasm_version=(0, 0))
                except Exception as exc:
                    _guard(exc)
                    count(part, f"rejected/direct/{what}")
                    continue
                judge("direct", what, sub, flav, case, part)
                # the same unrepresentable program reached by changing, in place, the operands of an instruction that has been
                # encoded (and printed) before: a range check must look at the operands the instruction has NOW
                part["evals"] += 1
                part["distinct"] += 1
                try:
                    old = codec.make_instr(cls, kinds, bg)
                    sub2 = Subroutine(instructions=[old], app_id=1, netqasm_version=(0, 0))
                    bytes(sub2), str(sub2), old.serialize()
                    if not _mutate_to(old, instr):
                        count(part, "operands-immutable")
                        continue
                except Exception as exc:
                    _guard(exc)
                    count(part, f"rejected/direct-after-encode/{what}")
                    continue
                judge("direct-after-encode", what, sub2, flav, dict(case, route="direct-after-encode"), part)
    count(part, f"class-explored/{flav}")
    if mn in ("set", "rot_x", "store"):
        add_sample(part, {"route": "direct", "flavour": flav, "mnemonic": mn, "field": 0, "value": OOR[lk[0]][0]})
    return part


def shard_header(shard):
    from netqasm.lang.subroutine import Subroutine
    part = new_part()
    cls = {c.mnemonic: c for c in codec.live_classes("vanilla")}["set"]
    for app_id in (65536, 65537, 131071, 2 ** 32, 2 ** 40, -1, -65536):
        for ver in ((0, 0), (1, 2)):
            part["evals"] += 1
            part["distinct"] += 1
            instr = codec.make_instr(cls, ["reg", "int32"], [(0, 1), 5])
            # three ways an app id reaches the header: constructor, property setter, instantiate()
            for how in ("constructor", "setter", "instantiate", "instantiate-over-valid-id", "setter-after-encode",
                        "instantiate-after-encode"):
                part["evals"] += 1
                part["distinct"] += 1
                case = {"route": "direct", "header": "app_id", "how": how, "app_id": app_id, "version": list(ver)}
                try:
                    if how == "constructor":
                        sub = Subroutine(instructions=[instr], app_id=app_id, netqasm_version=ver)
                    elif how == "setter":
                        sub = Subroutine(instructions=[instr], app_id=1, netqasm_version=ver)
                        sub.app_id = app_id
                    elif how == "instantiate":
                        sub = Subroutine(instructions=[instr], app_id=None, netqasm_version=ver)
                        sub.instantiate(app_id, {})
                    elif how == "instantiate-over-valid-id":
                        sub = Subroutine(instructions=[instr], app_id=7, netqasm_version=ver)
                        sub.instantiate(app_id, {})
                    else:
                        sub = Subroutine(instructions=[instr], app_id=7, netqasm_version=ver)
                        bytes(sub), str(sub), len(sub)
                        if how == "setter-after-encode":
                            sub.app_id = app_id
                        else:
                            sub.instantiate(app_id, {})
                except Exception as exc:
                    _guard(exc)
                    count(part, "rejected/direct/app-id")
                    continue
                judge("direct", "app-id", sub, "vanilla", case, part, requested_app_id=app_id)
    for vb in (256, 257, 1000, -1, 2 ** 40):
        for pos in (0, 1):
            part["evals"] += 1
            part["distinct"] += 1
            ver = [0, 0]
            ver[pos] = vb
            instr = codec.make_instr(cls, ["reg", "int32"], [(0, 1), 5])
            try:
                sub = Subroutine(instructions=[instr], app_id=3, netqasm_version=tuple(ver))
            except Exception as exc:
                _guard(exc)
                count(part, "rejected/direct/version-byte")
                continue
            judge("direct", "version-byte", sub, "vanilla", {"route": "direct", "header": "version", "version": ver}, part)
    return part


def _print_operand(kind_leaf, v):
    if kind_leaf == "reg":
        return f"{'RCQM'[v[0]]}{v[1]}"
    return str(v)


def shard_text(shard):
    """The printed form of an instruction with one out-of-range field, through the text assembler."""
    from netqasm.lang.parsing.text import parse_text_subroutine
    _, flav, mn = shard
    part = new_part()
    classes = {c.mnemonic: c for c in codec.live_classes(flav)}
    cls = classes[mn]
    kinds = codec.live_operand_kinds(cls)
    lk = codec.wiretable.leaf_kinds(kinds)
    bg = codec.background_high(lk)
    for p, k in enumerate(lk):
        what = _field_kind_name(kinds, p)
        for v in OOR[k]:
            lv = list(bg)
            lv[p] = (lv[p][0], v) if k == "reg" else v
            # render the operands textually (same syntax str() uses)
            it = iter(lv)
            words = [mn]
            for kind in kinds:
                if kind == "reg":
                    words.append(_print_operand("reg", next(it)))
                elif kind in ("imm8", "int32"):
                    words.append(str(next(it)))
                elif kind == "addr":
                    words.append(f"@{next(it)}")
                elif kind == "entry":
                    a = next(it)
                    words.append(f"@{a}[{_print_operand('reg', next(it))}]")
                elif kind == "slice":
                    a = next(it)
                    s = next(it)
                    e = next(it)
                    words.append(f"@{a}[{_print_operand('reg', s)}:{_print_operand('reg', e)}]")
            text = "# NETQASM 0.0\n# APPID 1\n" + " ".join(words) + "\n"
            part["evals"] += 1
            part["distinct"] += 1
            case = {"route": "text", "flavour": flav, "text": text, "field": p, "value": v}
            try:
                sub = parse_text_subroutine(text, flavour=codec.flavour(flav))
            except Exception as exc:
                _guard(exc)
                count(part, f"rejected/text/{what}")
                continue
            # the parser must have understood what was written (else it is a different defect: mis-parse)
            expected = codec.make_instr(cls, kinds, lv)
            if len(sub.instructions) != 1 or sub.instructions[0] != expected:
                add_violation(part, f"misparsed/text/{what}", "text assembler reads an out-of-range operand as something else without error",
                              case, {"got": [str(i) for i in sub.instructions]})
                continue
            judge("text", what, sub, flav, case, part)
    for app in (65536, 2 ** 32, -1):
        text = f"# NETQASM 0.0\n# APPID {app}\nset R1 5\n"
        part["evals"] += 1
        part["distinct"] += 1
        try:
            sub = parse_text_subroutine(text, flavour=codec.flavour(flav))
        except Exception as exc:
            _guard(exc)
            count(part, "rejected/text/app-id")
            continue
        judge("text", "app-id", sub, flav, {"route": "text", "text": text}, part)
    count(part, f"text-explored/{flav}")
    if mn == "set":
        add_sample(part, {"route": "text", "text": "# NETQASM 0.0\n# APPID 1\nset R16 5\n"})
    return part


class _Capture:
    """DebugConnection subclass factory that records the Subroutine objects it commits."""

    @staticmethod
    def make(**kwargs):
        from netqasm.sdk.connection import BaseNetQASMConnection, DebugConnection
        from netqasm.sdk.shared_memory import SharedMemoryManager
        BaseNetQASMConnection._app_ids.clear()
        BaseNetQASMConnection._app_names.clear()
        SharedMemoryManager.reset_memories()
        DebugConnection.node_ids = {"alice": 0, "bob": 1}

        class Conn(DebugConnection):
            def __init__(self, *a, **k):
                self.subs = []
                super().__init__(*a, **k)

            def commit_subroutine(self, subroutine, block=True, callback=None):
                self.subs.append(subroutine)
                # same as the base class: serialise into a message
                super().commit_subroutine(subroutine, block, callback)

        return Conn("alice", **kwargs)


SDK_SCENARIOS = [
    # (name, what, builder(conn, v))
    ("rot_X-numerator", "imm8", lambda c, q, v: q.rot_X(n=v, d=1)),
    ("rot_Y-numerator", "imm8", lambda c, q, v: q.rot_Y(n=v, d=0)),
    ("rot_Z-denominator", "imm8", lambda c, q, v: q.rot_Z(n=1, d=v)),
    ("measure-basis-rotation-x1", "imm8", lambda c, q, v: q.measure(basis_rotations=(v, 0, 0))),
    ("measure-basis-rotation-y", "imm8", lambda c, q, v: q.measure(basis_rotations=(0, v, 0))),
    ("measure-basis-rotation-x2", "imm8", lambda c, q, v: q.measure(basis_rotations=(0, 0, v))),
    ("array-init-value", "int32", lambda c, q, v: c.new_array(2, init_values=[v, 1])),
    ("array-init-value-uniform", "int32", lambda c, q, v: c.new_array(2, init_values=[v, v])),
    ("future-add-literal", "int32", lambda c, q, v: c.new_array(1, init_values=[1]).get_future_index(0).add(v)),
    ("new-register-init", "int32", lambda c, q, v: c.builder.new_register(init_value=v)),
    ("loop-stop", "int32", lambda c, q, v: _loop(c, q, stop=v)),
    ("loop-start", "int32", lambda c, q, v: _loop(c, q, stop=v + 1, start=v)),
    ("loop-step", "int32", lambda c, q, v: _loop(c, q, stop=v, step=v)),
    ("if-literal", "int32", lambda c, q, v: c.if_eq(c.new_array(1, init_values=[1]).get_future_index(0), v, lambda cc: q.H())),
    ("future-add-modulus", "int32", lambda c, q, v: c.new_array(1, init_values=[1]).get_future_index(0).add(1, mod=v)),
]


def _loop(c, q, **kw):
    with c.loop(**kw):
        q.H()
SDK_VALUES = {"imm8": [256, 257, 300, 511, 1000, 65536], "int32": [2 ** 31, 2 ** 32, 2 ** 32 + 7, -(2 ** 31) - 1, 2 ** 40]}


def shard_sdk(shard):
    from netqasm.lang.parsing.binary import deserialize
    from netqasm.sdk.qubit import Qubit
    _, idx = shard
    part = new_part()
    name, what, build = SDK_SCENARIOS[idx]
    for v in SDK_VALUES[what]:
        part["evals"] += 1
        part["distinct"] += 1
        case = {"route": "sdk", "scenario": name, "value": v}
        conn = _Capture.make()
        try:
            q = Qubit(conn)
            build(conn, q, v)
            conn.flush()
        except Exception as exc:
            _guard(exc)
            count(part, f"rejected/sdk/{what}")
            continue
        if not conn.subs:
            add_violation(part, f"dropped/sdk/{name}", "SDK call with an out-of-range operand produced no subroutine and no error", case)
            continue
        sub = conn.subs[-1]
        # the requested value must be what the in-memory program holds
        vals = [op.value for i in sub.instructions for op in i.operands if hasattr(op, "value")]
        if v not in vals:
            add_violation(part, f"altered-before-encoding/sdk/{name}", "SDK changed an out-of-range operand before encoding, without error",
                          case, {"program": [str(i) for i in sub.instructions]})
            continue
        judge("sdk", f"{what}:{name}", sub, "vanilla", case, part)
    # app id of the connection
    if idx == 0:
        for app_id in (65536, 65541):
            part["evals"] += 1
            part["distinct"] += 1
            case = {"route": "sdk", "scenario": "connection-app-id", "value": app_id}
            try:
                conn = _Capture.make(app_id=app_id)
                q = Qubit(conn)
                q.H()
                conn.flush()
            except Exception as exc:
                _guard(exc)
                count(part, "rejected/sdk/app-id")
                continue
            judge("sdk", "app-id", conn.subs[-1], "vanilla", case, part)
    count(part, "sdk-scenarios")
    add_sample(part, {"route": "sdk", "scenario": name, "values": SDK_VALUES[what]})
    return part


def _dispatch(shard):
    return {"direct": shard_direct, "header": shard_header, "text": shard_text, "sdk": shard_sdk}[shard[0]](shard)


def run(ctx):
    shards: List[Any] = [("header",)]
    for flav in FLAVOURS:
        for c in codec.live_classes(flav):
            shards.append(("direct", flav, c.mnemonic))
            shards.append(("text", flav, c.mnemonic))
    for i in range(len(SDK_SCENARIOS)):
        shards.append(("sdk", i))
    ctx.pmap(_dispatch, shards)
    for flav in FLAVOURS:
        ctx.require(f"class-explored/{flav}", 30)
        ctx.require(f"text-explored/{flav}", 30)
    ctx.require("sdk-scenarios", len(SDK_SCENARIOS))
    rejected = sum(v for k, v in ctx.total["counters"].items() if k.startswith("rejected/"))
    ctx.extra["rejected_cases"] = rejected
    ctx.extra["represented_cases"] = sum(v for k, v in ctx.total["counters"].items() if k.startswith("represented/"))


def replay(case, part):
    route = case.get("route")
    if route == "sdk":
        for i, (name, _, _) in enumerate(SDK_SCENARIOS):
            if name == case["scenario"] or case["scenario"] == "connection-app-id" and i == 0:
                p = shard_sdk(("sdk", i))
                part["violations"].extend(p["violations"])
    elif route == "text":
        # find the mnemonic from the text
        mn = case["text"].strip().split("\n")[-1].split()[0]
        p = shard_text(("text", case["flavour"], mn))
        part["violations"].extend(p["violations"])
    elif "header" in case:
        part["violations"].extend(shard_header(("header",))["violations"])
    else:
        p = shard_direct(("direct", case["flavour"], case["mnemonic"]))
        part["violations"].extend(p["violations"])
