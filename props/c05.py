"""C05 — SDK control flow and classical data flow compile to equivalent subroutines.

Host programs are small ASTs with two interpreters: A walks the AST calling the REAL SDK on
a SimConnection (builder -> assembler -> bytes -> message -> real controller/executor); B
evaluates the AST directly in Python.  Every program of the bounded grammar x every flush
placement x every measurement-outcome script is run through both and compared on the
ordered gate/measurement trace, controller arrays and registers after each flush, and the
host-side value of every live handle after each flush.
"""
from __future__ import annotations

import itertools
import json
from typing import Any, Dict, List, Optional, Tuple

import numpy as np

from mc import choices, qsim, simctl, world
from mc.report import guard_harness as _guard
from mc.report import add_sample, add_violation, count, new_part, over_budget

LEVEL = "exploration"
RULE = ("host-program ASTs over {gate on a persistent qubit, fresh-qubit measure into new future / array slot (constant or loop "
        "index) / register, add (literal, future, loop index, register; with/without modulus), if_{eq,ne,lt,ge,ez,nz} as context "
        "or callback, loop as context or loop_body, foreach, enumerate, loop_until with at-most exit}: all single statements to "
        "nesting depth 2, all pairs from the reduced pool, all triples from the small pool; x every subset of flush gaps x "
        "every feasible measurement outcome script x initial arrays {[0,1],[1,1],[2,0,1]}; the reduced x small pair pool also on NV hardware config with and without the NV transpiler (measurement outcomes, memory, handles and the final state of the persistent qubit); distinct = distinct (program, flush "
        "placement, outcome script); non-trivial = contains a compound statement or a flush gap")
ASSUMPTIONS = ["only usages the repository's docs, examples and tests exhibit are generated",
               "a RegFuture is used as an operand only inside the flush segment that produced it (M registers are recycled per flush by design)",
               "loop(start, step) variants only with (stop-start) divisible by step (documented: stops when the index reaches stop)",
               "the controller is the repository's base executor with harness quantum hooks (mc/simctl.py)"]

INITS = [[0, 1], [1, 1], [2, 0, 1]]
CMPS = ["eq", "ne", "lt", "ge", "ez", "nz"]
CMPF = {"eq": lambda a, b: a == b, "ne": lambda a, b: a != b, "lt": lambda a, b: a < b, "ge": lambda a, b: a >= b,
        "ez": lambda a, b: a == 0, "nz": lambda a, b: a != 0}


class Undefined(Exception):
    """The direct evaluation reads an undefined value: the controller must fault."""


class Skip(Exception):
    """Statically ill-formed program (reference to a handle that does not exist)."""


# =============================================================================== static pre-pass
def annotate(prog) -> List[Any]:
    """Assigns static resources in build order (= program order, bodies visited once):
    array addresses for `new` destinations, register cells for `reg` destinations; resolves lastm/lastreg.
    Returns the annotated tree (nested lists of dict nodes)."""
    st = {"next_addr": 1, "lastm": None, "lastreg": None, "cells": 0}

    def res_operand(o, env):
        if isinstance(o, int):
            return o
        k = o[0]
        if k == "arr":
            if o[1] == "i" and not env.get("i"):
                raise Skip()
            return o
        if k == "lastm":
            if st["lastm"] is None:
                raise Skip()
            return ("loc", st["lastm"][0], st["lastm"][1])
        if k == "lastreg":
            if st["lastreg"] is None:
                raise Skip()
            return ("cell", st["lastreg"])
        if k == "v":
            if not env.get("v"):
                raise Skip()
            return o
        if k == "i":
            if not env.get("i"):
                raise Skip()
            return o
        if k == "aa":                    # A0[A0[k]]: an array entry whose index is itself a Future
            return o
        raise AssertionError(o)

    def walk(stmts, env):
        out = []
        for s in stmts:
            k = s[0]
            if k == "gp":
                out.append({"k": "gp", "g": s[1]})
            elif k == "m":
                _, prep, dest = s
                node = {"k": "m", "prep": prep}
                if dest[0] == "new":
                    node["dest"] = ("loc", st["next_addr"], 0)
                    node["new_addr"] = st["next_addr"]
                    st["next_addr"] += 1
                    st["lastm"] = (node["new_addr"], 0)
                elif dest[0] == "arr":
                    if dest[1] == "i":
                        if not env.get("i"):
                            raise Skip()
                        node["dest"] = ("arr", "i")
                    else:
                        node["dest"] = ("loc", 0, dest[1])
                        st["lastm"] = (0, dest[1])
                elif dest[0] == "reg":
                    node["dest"] = ("cell", st["cells"])
                    st["lastreg"] = st["cells"]
                    st["cells"] += 1
                elif dest[0] == "aa":
                    node["dest"] = ("aa", dest[1])
                elif dest[0] == "lastreg":
                    # measurement into a register handle that exists already (measure(future=<RegFuture>))
                    if st["lastreg"] is None:
                        raise Skip()
                    node["dest"] = ("cell", st["lastreg"])
                    node["into_existing"] = True
                out.append(node)
            elif k == "newreg":
                # conn.builder.new_register(init): a register the host holds on to
                out.append({"k": "newreg", "init": s[1], "dest": ("cell", st["cells"])})
                st["lastreg"] = st["cells"]
                st["cells"] += 1
            elif k == "add":
                _, target, operand, mod = s
                out.append({"k": "add", "target": res_operand(target, env), "operand": res_operand(operand, env), "mod": mod})
            elif k == "if":
                _, cmp, a, b, style, body = s
                node = {"k": "if", "cmp": cmp, "a": res_operand(a, env), "b": None if b is None else res_operand(b, env), "style": style}
                if style == "ctx" and isinstance(node["a"], int):
                    raise Skip()
                node["body"] = walk(body, env)
                out.append(node)
            elif k == "loop":
                _, n, style, body = s[:4]
                start, step = (s[4], s[5]) if len(s) > 4 else (0, 1)
                node = {"k": "loop", "n": n, "style": style, "start": start, "step": step, "reg": s[6] if len(s) > 6 else None}
                node["body"] = walk(body, dict(env, i=style, v=False))
                out.append(node)
            elif k in ("foreach", "enum"):
                node = {"k": k}
                node["body"] = walk(s[1], dict(env, i=("ctx" if k == "enum" else False), v=True))
                out.append(node)
            elif k == "mb":
                # a fresh qubit prepared by named gates, measured in a Pauli basis (Qubit.measure(basis=...)) into a new future
                node = {"k": "mb", "prep": s[1], "basis": s[2], "dest": ("loc", st["next_addr"], 0), "new_addr": st["next_addr"]}
                st["next_addr"] += 1
                st["lastm"] = (node["new_addr"], 0)
                out.append(node)
            elif k == "try":
                # with conn.try_until_success(max_tries): body   (the body is built once, after what was queued before it)
                out.append({"k": "try", "max": s[1], "body": walk(s[2], env)})
            elif k in ("sliceadd", "slicem"):
                # for f in A0.get_future_slice(slice(start, stop, step)): f.add(c) / measure |1> into f
                out.append({"k": k, "slice": tuple(s[1]), "c": s[2] if len(s) > 2 else None})
            elif k == "until":
                _, mx, prep, v, extra = s
                node = {"k": "until", "max": mx, "prep": prep, "v": v, "addr": st["next_addr"]}
                st["next_addr"] += 1
                st["lastm"] = (node["addr"], 0)
                node["extra"] = walk(extra, env)
                out.append(node)
            else:
                raise AssertionError(s)
        return out

    tree = [walk([s], {}) for s in prog]     # one list per top-level statement
    return tree, st


# =============================================================================== interpreter B (direct evaluation)
class Direct:
    def __init__(self, init, script: choices.Script):
        self.arrays: Dict[int, List[Optional[int]]] = {}
        self.cells: Dict[int, Optional[int]] = {}
        self.init = list(init)
        self.trace: List[Tuple] = []
        self.script = script
        self.q = qsim.QState()
        self.q.add("P")
        self.trace.append(("init", 0))
        self.fresh = 0
        self.declared = set()

    # arrays are declared by the subroutine of the flush segment that created them
    def declare_segment(self, nodes, first: bool):
        if first:
            self.arrays[0] = list(self.init)

        def walk(ns):
            for n in ns:
                if n["k"] in ("m", "mb") and "new_addr" in n:
                    self.arrays[n["new_addr"]] = [None]
                elif n["k"] == "until":
                    self.arrays[n["addr"]] = [None]
                    walk(n["extra"])
                elif "body" in n:
                    walk(n["body"])
        walk(nodes)

    def rd(self, o, env):
        if isinstance(o, int):
            return o
        k = o[0]
        if k == "loc":
            v = self.arrays[o[1]][o[2]]
        elif k == "arr":
            idx = env["i"] if o[1] == "i" else o[1]
            if not 0 <= idx < len(self.arrays[0]):
                raise Undefined("index outside the array")
            v = self.arrays[0][idx]
        elif k == "cell":
            v = self.cells.get(o[1])
        elif k == "v":
            v = self.arrays[0][env["vi"]]
        elif k == "i":
            v = env["i"]
        elif k == "aa":
            v = self.arrays[0][self._aa_index(o)]
        else:
            raise AssertionError(o)
        if v is None:
            raise Undefined(f"read of undefined {o}")
        return v

    def _aa_index(self, o) -> int:
        idx = self.arrays[0][o[1]]
        if idx is None:
            raise Undefined("index entry is undefined")
        if not 0 <= idx < len(self.arrays[0]):
            raise Undefined("index outside the array")
        return idx

    def wr(self, o, env, val):
        k = o[0]
        if k == "loc":
            self.arrays[o[1]][o[2]] = val
        elif k == "arr":
            idx = env["i"] if o[1] == "i" else o[1]
            if not 0 <= idx < len(self.arrays[0]):
                raise Undefined("index outside the array")
            self.arrays[0][idx] = val
        elif k == "cell":
            self.cells[o[1]] = val
        elif k == "v":
            self.arrays[0][env["vi"]] = val
        elif k == "aa":
            self.arrays[0][self._aa_index(o)] = val
        else:
            raise AssertionError(o)

    def measure_fresh(self, prep) -> int:
        self.fresh += 1
        name = ("f", self.fresh)
        self.q.add(name)
        self.trace.append(("init", 1))
        if prep == "1":
            self.q.apply(qsim.X, name)
            self.trace.append(("x", 1))
        elif prep == "+":
            self.q.apply(qsim.H, name)
            self.trace.append(("h", 1))
        p0, p1 = self.q.probabilities(name)
        out = self.script.outcome(p0, p1)
        self.q.project(name, out)
        self.q.remove(name)
        self.trace.append(("meas", 1, out))
        return out

    def run(self, nodes, env):
        for n in nodes:
            k = n["k"]
            if k == "gp":
                self.q.apply(qsim.GATES1[n["g"]], "P")
                self.trace.append((n["g"], 0))
            elif k == "m":
                out = self.measure_fresh(n["prep"])
                self.wr(n["dest"], env, out)
            elif k == "newreg":
                self.wr(n["dest"], env, n["init"])
            elif k == "add":
                x = self.rd(n["target"], env)
                y = self.rd(n["operand"], env)
                r = x + y
                if n["mod"] is not None:
                    r = r % n["mod"]
                self.wr(n["target"], env, r)
            elif k == "if":
                a = self.rd(n["a"], env)
                b = None if n["b"] is None else self.rd(n["b"], env)
                if not n["body"]:
                    continue
                if CMPF[n["cmp"]](a, b):
                    self.run(n["body"], env)
            elif k == "loop":
                i = n["start"]
                guard = 0
                while i != n["n"]:
                    self.run(n["body"], dict(env, i=i))
                    i += n["step"]
                    guard += 1
                    assert guard < 50
            elif k in ("foreach", "enum"):
                for idx in range(len(self.arrays[0])):
                    self.run(n["body"], dict(env, i=idx, vi=idx))
            elif k == "mb":
                self.fresh += 1
                name = ("f", self.fresh)
                self.q.add(name)
                self.trace.append(("init", 1))
                for g in n["prep"]:
                    self.q.apply(qsim.GATES1[g], name)
                    self.trace.append((g, 1))
                # outcome 0 <-> the +1 eigenstate of the named Pauli: X: |+>, Y: |+i>, Z: |0>
                if n["basis"] == "X":
                    self.q.apply(qsim.GATES1["h"], name)
                elif n["basis"] == "Y":
                    self.q.apply(qsim.GATES1["h"] @ qsim.GATES1["s"].conj().T, name)
                p0, p1 = self.q.probabilities(name)
                out = self.script.outcome(p0, p1)
                self.q.project(name, out)
                self.q.remove(name)
                self.trace.append(("meas", 1, out))
                self.wr(n["dest"], env, out)
            elif k == "try":
                self.run(n["body"], env)
            elif k in ("sliceadd", "slicem"):
                for idx in range(len(self.arrays[0]))[slice(*n["slice"])]:
                    if k == "sliceadd":
                        self.arrays[0][idx] = self.arrays[0][idx] + n["c"]
                    else:
                        self.arrays[0][idx] = self.measure_fresh("1")
            elif k == "until":
                for _ in range(n["max"]):
                    out = self.measure_fresh(n["prep"])
                    self.arrays[n["addr"]][0] = out
                    self.run(n["extra"], env)
                    if out <= n["v"]:
                        break
            else:
                raise AssertionError(n)


# =============================================================================== interpreter A (real SDK)
class Real:
    def __init__(self, init, chooser, config="generic"):
        from netqasm.sdk.qubit import Qubit
        world.reset()
        kw = {}
        flavour = None
        if config != "generic":
            from netqasm.lang.instr.flavour import NVFlavour
            from netqasm.sdk.build_types import NVHardwareConfig
            from netqasm.sdk.transpile import NVSubroutineTranspiler
            kw["hardware_config"] = NVHardwareConfig(5)
            if config == "nv+transpiler":
                kw["compiler"] = NVSubroutineTranspiler
                flavour = NVFlavour()
        self.config = config
        self.ctrl, self.conn = simctl.make_pair("alice", horizon=6000 if config != "generic" else 1500, flavour=flavour, **kw)
        self.ex = self.ctrl.executor
        self.ex.chooser = chooser.outcome
        self.P = Qubit(self.conn)
        self.A0 = self.conn.new_array(len(init), init_values=list(init))
        self.locs: Dict[Tuple[int, int], Any] = {}       # (addr, idx) -> Future handle (constant index)
        self.cells: Dict[int, Any] = {}                  # cell -> RegFuture
        self.arrs: Dict[int, Any] = {0: self.A0}
        for i in range(len(init)):
            self.locs[(0, i)] = self.A0.get_future_index(i)
        self.cell_segment: Dict[int, int] = {}
        self.segment = 0

    def opnd(self, o, env):
        """operand as the SDK wants it (T_CValue)"""
        if isinstance(o, int):
            return o
        k = o[0]
        if k == "loc":
            return self.locs[(o[1], o[2])]
        if k == "arr":
            if o[1] == "i":
                return self.A0.get_future_index(env["i"])
            return self.locs[(0, o[1])]
        if k == "cell":
            return self.cells[o[1]]
        if k == "aa":
            return self.A0.get_future_index(self.locs[(0, o[1])])
        if k == "v":
            return env["v"]
        if k == "i":
            return env["i"]
        raise AssertionError(o)

    def build(self, nodes, env):
        from netqasm.sdk.constraint import ValueAtMostConstraint
        from netqasm.sdk.futures import RegFuture
        from netqasm.sdk.qubit import Qubit
        conn = self.conn
        for n in nodes:
            k = n["k"]
            if k == "gp":
                getattr(self.P, n["g"].upper())()
            elif k == "m":
                q = Qubit(conn)
                if n["prep"] == "1":
                    q.X()
                elif n["prep"] == "+":
                    q.H()
                d = n["dest"]
                if "new_addr" in n:
                    f = q.measure()
                    assert f._address == n["new_addr"], (f._address, n["new_addr"])
                    self.locs[(n["new_addr"], 0)] = f
                elif d[0] == "loc":
                    q.measure(future=self.locs[(d[1], d[2])])
                elif d[0] == "arr":
                    q.measure(future=self.A0.get_future_index(env["i"]))
                elif d[0] == "cell" and n.get("into_existing"):
                    q.measure(future=self.cells[d[1]])
                elif d[0] == "cell":
                    r = q.measure(store_array=False)
                    self.cells[d[1]] = r
                    self.cell_segment[d[1]] = self.segment
                elif d[0] == "aa":
                    q.measure(future=self.A0.get_future_index(self.locs[(0, d[1])]))
            elif k == "newreg":
                self.cells[n["dest"][1]] = conn.builder.new_register(n["init"])
                self.cell_segment[n["dest"][1]] = self.segment
            elif k == "add":
                t = self.opnd(n["target"], env)
                o = self.opnd(n["operand"], env)
                t.add(o, mod=n["mod"])
            elif k == "if":
                a = self.opnd(n["a"], env)
                b = None if n["b"] is None else self.opnd(n["b"], env)
                cmp = n["cmp"]
                if n["style"] == "ctx":
                    ctx = getattr(a, f"if_{cmp}")(b) if cmp not in ("ez", "nz") else getattr(a, f"if_{cmp}")()
                    with ctx:
                        self.build(n["body"], env)
                else:
                    def body(c, n=n, env=env):
                        self.build(n["body"], env)
                    if cmp in ("ez", "nz"):
                        getattr(conn, f"if_{cmp}")(a, body)
                    else:
                        getattr(conn, f"if_{cmp}")(a, b, body)
            elif k == "loop":
                kw = {}
                if (n["start"], n["step"]) != (0, 1):
                    kw = {"start": n["start"], "step": n["step"]}
                if n.get("reg"):
                    kw["loop_register"] = n["reg"]        # documented: a specific register for the loop index
                if n["style"] == "ctx":
                    with conn.loop(n["n"], **kw) as i:
                        self.build(n["body"], dict(env, i=i))
                else:
                    def lbody(c, i, n=n, env=env):
                        self.build(n["body"], dict(env, i=i))
                    conn.loop_body(lbody, stop=n["n"], **kw)
            elif k == "foreach":
                with self.A0.foreach() as v:
                    self.build(n["body"], dict(env, v=v, i=None))
            elif k == "enum":
                with self.A0.enumerate() as (i, v):
                    self.build(n["body"], dict(env, v=v, i=i))
            elif k == "mb":
                from netqasm.sdk.qubit import QubitMeasureBasis
                q = Qubit(conn)
                for g in n["prep"]:
                    getattr(q, g.upper())()
                f = q.measure(basis=QubitMeasureBasis[n["basis"]])
                assert f._address == n["new_addr"], (f._address, n["new_addr"])
                self.locs[(n["new_addr"], 0)] = f
            elif k == "try":
                with conn.try_until_success(max_tries=n["max"]):
                    self.build(n["body"], env)
            elif k in ("sliceadd", "slicem"):
                for f in self.A0.get_future_slice(slice(*n["slice"])):
                    if k == "sliceadd":
                        f.add(n["c"])
                    else:
                        q = Qubit(conn)
                        q.X()
                        q.measure(future=f)
            elif k == "until":
                with conn.loop_until(n["max"]) as loop:
                    q = Qubit(conn)
                    if n["prep"] == "1":
                        q.X()
                    elif n["prep"] == "+":
                        q.H()
                    m = q.measure()
                    assert m._address == n["addr"]
                    self.locs[(n["addr"], 0)] = m
                    self.build(n["extra"], env)
                    loop.set_exit_condition(ValueAtMostConstraint(m, n["v"]))
            else:
                raise AssertionError(n)

    def trace(self):
        out = []
        mi = 0
        for t in self.ex.gate_trace:
            if t[0] in ("meas", "meas_basis"):
                out.append(("meas", t[1], self.ex.meas_trace[mi][1]))
                mi += 1
            else:
                out.append(tuple(t[:2]))
        return out

    def controller_arrays(self):
        return {a: list(v) for a, v in self.ex._app_arrays[self.conn.app_id]._arrays.items()}


# =============================================================================== comparison of one (program, flush set, init)
def run_case(prog, flushes, init, part, case_extra=None, config="generic") -> None:
    """flushes: set of gap indices g (flush after top-level statement g, 0-based; the final flush is always there)."""
    if over_budget(part):
        return
    case = {"program": prog, "flush_after": sorted(flushes), "init": init}
    if config != "generic":
        case["config"] = config
    if case_extra:
        case.update(case_extra)
    try:
        tree, st = annotate(prog)
    except Skip:
        count(part, "skipped-illformed")
        return
    # a register future may only be used in the segment that produced it
    if not _regs_stay_in_segment(tree, flushes):
        count(part, "skipped-register-across-flush")
        return

    def one(chooser):
        real = Real(init, chooser, config)
        obs = []
        try:
            for si, nodes in enumerate(tree):
                real.segment = sum(1 for g in flushes if g < si)
                real.build(nodes, {})
                if si in flushes or si == len(tree) - 1:
                    real.conn.flush()
                    obs.append(("flush", si, real.controller_arrays(), _cells_real(real), _handles(real)))
        except simctl.Horizon:
            obs.append(("horizon",))
        except simctl.Blocked:
            obs.append(("blocked",))
        except Exception as exc:
            _guard(exc)
            obs.append(("raised", type(exc).__name__, str(exc).splitlines()[0][:200] if str(exc) else ""))
        return real, obs

    for chosen, (real, obs) in choices.explore(one, max_runs=4096):
        part["evals"] += 1
        outcomes = [o for _, o in real.ex.meas_trace]
        nontrivial = bool(flushes) or any(s[0] in ("if", "loop", "foreach", "enum", "until", "try", "sliceadd", "slicem", "mb") for s in prog)
        part["distinct"] += 1 if nontrivial else 0
        c = dict(case, outcomes=outcomes)
        compare(tree, flushes, init, real, obs, outcomes, c, part)
        if obs and obs[-1][0] in ("horizon", "blocked"):
            # a non-terminating execution has unboundedly many measurement choice points: it is reported once, the
            # remaining outcome scripts of this program are not enumerated
            count(part, "outcome-enumeration-cut-at-nonterminating-execution")
            break


def _regs_stay_in_segment(tree, flushes) -> bool:
    seg_of_cell: Dict[int, int] = {}
    ok = True

    def walk(ns, seg):
        nonlocal ok
        for n in ns:
            if n["k"] in ("m", "newreg") and n["dest"][0] == "cell" and not n.get("into_existing"):
                seg_of_cell[n["dest"][1]] = seg
            elif n["k"] == "m" and n.get("into_existing") and seg_of_cell.get(n["dest"][1]) != seg:
                ok = False
            for key in ("a", "b", "target", "operand"):
                o = n.get(key)
                if isinstance(o, tuple) and o[0] == "cell" and seg_of_cell.get(o[1]) != seg:
                    ok = False
            if "body" in n:
                walk(n["body"], seg)
            if "extra" in n:
                walk(n["extra"], seg)
    for si, nodes in enumerate(tree):
        walk(nodes, sum(1 for g in flushes if g < si))
    return ok


def _cells_real(real: Real):
    out = {}
    for c, rf in real.cells.items():
        if real.cell_segment[c] == real.segment and rf.reg is not None:
            out[c] = real.ex._get_register(real.conn.app_id, rf.reg)
    return out


def _handles(real: Real):
    """host-side reads of every live handle, next to the shared-memory and the controller value"""
    out = []
    ctl = real.controller_arrays()
    sm = real.conn.shared_memory
    for (addr, idx), fut in sorted(real.locs.items()):
        if addr not in ctl:
            continue
        try:
            hv = fut.value
        except Exception as exc:
            _guard(exc)
            hv = f"raised {type(exc).__name__}"
        try:
            sv = sm.get_array_part(addr, idx)
        except Exception:
            sv = "no-array"
        out.append(("future", addr, idx, hv, sv, ctl[addr][idx]))
    try:
        hv = list(real.A0[0:len(real.A0)]) if real.A0[0:len(real.A0)] is not None else None
    except Exception as exc:
        _guard(exc)
        hv = f"raised {type(exc).__name__}"
    out.append(("array", 0, None, hv, hv, ctl.get(0)))
    for c, rf in sorted(real.cells.items()):
        if real.cell_segment[c] == real.segment and rf.reg is not None:
            try:
                hv = rf.value
            except Exception as exc:
                _guard(exc)
                hv = f"raised {type(exc).__name__}"
            out.append(("regfuture", c, None, hv, sm.get_register(rf.reg), real.ex._get_register(real.conn.app_id, rf.reg)))
    return out


def compare(tree, flushes, init, real, obs, outcomes, case, part) -> None:
    # ---- direct evaluation with the same outcome script --------------------------------------
    script = choices.Script(outcomes)
    d = Direct(init, script)
    expected = []
    fault = None
    try:
        seg_nodes: List[Any] = []
        first = True
        for si, nodes in enumerate(tree):
            seg_nodes.append(nodes)
            if si in flushes or si == len(tree) - 1:
                # the subroutine of this segment declares the arrays created in it, then runs
                d.declare_segment([n for ns in seg_nodes for n in ns], first)
                first = False
                for ns in seg_nodes:
                    d.run(ns, {})
                seg_nodes = []
                expected.append(("flush", si, {a: list(v) for a, v in d.arrays.items()}, dict(d.cells)))
    except Undefined as u:
        fault = str(u)
    kinds = "+".join(sorted({_k for s in case["program"] for _k in _kinds(s)}))
    # NV hardware: a qubit relocation that the SDK decides statically but that sits inside a loop / conditional body
    nv_reloc = real.config != "generic" and any(_measures_inside_control_flow(s, False) for s in case["program"])
    # ---- outcome class --------------------------------------------------------------------------
    last = obs[-1] if obs else ("nothing",)
    if fault is not None:
        count(part, "expected-controller-fault")
        if last[0] != "raised":
            add_violation(part, f"missing-fault/{kinds}", f"direct evaluation reads an undefined value ({fault}); the controller did not fault",
                          case, {"observed": _short(obs)})
        return
    if last[0] == "raised" and "Trying to return register" in last[2]:
        add_violation(part, "controller-faults/ret_reg-of-register-never-written", "a measurement into a register sits in a branch "
                      "or loop body that did not execute; the unconditional ret_reg at the end of the subroutine faults the whole "
                      "subroutine", case, {"message": last[2]})
        return
    if last[0] == "raised" and nv_reloc and ("already allocated" in last[2] or "was not allocated" in last[2]):
        sym = "double-allocation" if "already allocated" in last[2] else "not-allocated"
        add_violation(part, f"nv-relocation-inside-control-flow/{sym}", "NV hardware: the SDK relocates the qubit at virtual ID 0 inside a "
                      f"loop/conditional body; the relocation is decided once at build time but executes per iteration / not at all: {last[2]}",
                      case)
        return
    if last[0] == "raised":
        add_violation(part, f"sdk-or-controller-raises/{last[1]}/{kinds}", f"{last[1]}: {last[2]}", case, {"expected": _short(expected)})
        return
    if last[0] in ("horizon", "blocked"):
        add_violation(part, f"does-not-terminate/{kinds}", f"controller execution hit the {last[0]} bound", case)
        return
    if script.diverged:
        add_violation(part, f"measurement-divergence/{kinds}", f"controller measurements cannot happen in the direct evaluation: {script.diverged}",
                      case, {"real_trace": real.trace(), "direct_trace": d.trace})
        return
    # ---- gate / measurement trace ----------------------------------------------------------------
    rt = real.trace()
    if real.config != "generic":
        # NV hardware: the SDK relocates qubits and the transpiler rewrites gates, so virtual ids and mnemonics differ by design.
        # Compared instead: the measurement outcome sequence and the final state of the persistent qubit.
        mo = [t[2] for t in rt if t[0] == "meas"]
        dm = [t[2] for t in d.trace if t[0] == "meas"]
        um = real.ex._qubit_unit_modules[real.conn.app_id]
        pv = None
        if 0 <= real.P.qubit_id < len(um) and um[real.P.qubit_id] is not None and real.ex.qs.is_product(um[real.P.qubit_id]):
            pv = real.ex.qs.reduced([um[real.P.qubit_id]])
        want = d.q.reduced(["P"])
        if mo != dm or pv is None or not np.allclose(pv, want, atol=1e-8):
            fp = "nv-relocation-inside-control-flow/wrong-effect" if nv_reloc else f"nv-effect/{real.config}/{kinds}"
            add_violation(part, fp, "on NV hardware the measurement outcomes or the final state of the "
                          "persistent qubit differ from the direct evaluation", case, {"real_meas": mo, "direct_meas": dm,
                                                                                       "persistent_qubit_found": pv is not None})
            return
    elif rt != d.trace:
        add_violation(part, f"trace/{kinds}", "gate applications / measurements on the controller differ from the direct evaluation",
                      case, {"real_trace": rt, "direct_trace": d.trace})
        return
    # ---- memory after each flush -------------------------------------------------------------------
    for o, e in zip(obs, expected):
        _, si, arrays, cells, handles = o
        _, _, earrays, ecells = e
        for a, ev in earrays.items():
            if arrays.get(a) != ev:
                add_violation(part, f"array-contents/{kinds}", f"controller array @{a} differs from the direct evaluation after the flush "
                              f"following statement {si}", case, {"controller": arrays.get(a), "direct": ev})
                return
        for c, rv in cells.items():
            if ecells.get(c) != rv:
                add_violation(part, f"register-contents/{kinds}", "controller register of a RegFuture differs from the direct evaluation",
                              case, {"controller": rv, "direct": ecells.get(c)})
                return
        for kind, addr, idx, hv, sv, cv in handles:
            if hv != cv:
                if kind == "future" and sv == cv:
                    why = "future-caches-first-read"
                elif kind in ("future", "array") and sv != cv:
                    why = "array-changed-by-later-subroutine-not-returned"
                else:
                    why = kind
                add_violation(part, f"host-handle-stale/{why}", f"after a flush the {kind} handle reads {hv!r} on the host, the controller "
                              f"holds {cv!r}", case, {"handle": [kind, addr, idx], "host": hv, "shared_memory": sv, "controller": cv,
                                                      "after_statement": si})
                return
    count(part, "agree")


def _measures_inside_control_flow(s, inside: bool) -> bool:
    k = s[0]
    if k == "until":
        return True                      # its body measures a fresh qubit every iteration
    if k == "m":
        return inside
    for x in s:
        if isinstance(x, list):
            for y in x:
                if isinstance(y, tuple) and _measures_inside_control_flow(y, True):
                    return True
    return False


def _kinds(s):
    yield s[0]
    for x in s:
        if isinstance(x, list):
            for y in x:
                if isinstance(y, tuple):
                    yield from _kinds(y)


def _short(obs):
    return [o[:2] for o in obs]


# =============================================================================== enumeration
def leaves(in_loop: Optional[str], has_v: bool, small: bool = False):
    out = [("gp", "x"), ("m", "+", ("new",)), ("m", "1", ("arr", 0)), ("add", ("arr", 0), 1, None)]
    if not small:
        out += [("gp", "h"), ("m", "0", ("new",)), ("m", "+", ("arr", 1)), ("m", "+", ("reg",)), ("m", "1", ("reg",)),
                ("add", ("arr", 0), ("arr", 1), 2), ("add", ("arr", 1), 1, 2), ("add", ("lastreg",), 1, None),
                ("add", ("arr", 0), ("lastreg",), None), ("add", ("lastreg",), ("arr", 1), None)]
    if in_loop:
        out += [("m", "1", ("arr", "i")), ("add", ("arr", "i"), 1, None)]
        if not small:
            out += [("m", "+", ("arr", "i")), ("add", ("arr", 0), ("i",), None), ("add", ("arr", "i"), ("arr", 0), 3)]
    if has_v:
        out += [("add", ("v",), 1, None)]
        if not small:
            out += [("add", ("arr", 0), ("v",), None)]
    return out


def conds(in_loop, has_v, small=False):
    ops = [(("arr", 0), 1), (("arr", 0), ("arr", 1)), (("lastm",), 0)]
    if not small:
        ops += [(("arr", 1), 0), (("lastm",), 1), (("lastreg",), 1), (("arr", 0), 2)]
    if in_loop:
        ops += [(("arr", "i"), 1)]
    if has_v:
        ops += [(("v",), 1)]
    for cmp in CMPS:
        for a, b in ops:
            if cmp in ("ez", "nz"):
                if b != ops[0][1] and isinstance(b, tuple):
                    continue
                yield cmp, a, None
            else:
                yield cmp, a, b


def compounds(depth: int, in_loop=None, has_v=False, small=False):
    """statements of nesting depth exactly <= depth"""
    lv = leaves(in_loop, has_v, small)
    yield from lv
    if depth == 0:
        return
    inner = list(compounds(depth - 1, in_loop, has_v, True)) if depth > 1 else leaves(in_loop, has_v, True)
    bodies1 = [[b] for b in lv] + ([] if depth == 1 else [[c] for c in inner if c[0] not in ("gp", "m", "add")])
    bodies2 = [[a, b] for a in leaves(in_loop, has_v, True)[:3] for b in leaves(in_loop, has_v, True)[:3]] if not small else []
    for cmp, a, b in conds(in_loop, has_v, small):
        for style in ("ctx", "cb"):
            for body in (bodies1 if not small else bodies1[:4]) + ([] if small else bodies2[:4]):
                yield ("if", cmp, a, b, style, body)
    for n in ((0, 1, 2, 3) if not small else (0, 2)):
        for style in ("ctx", "fn"):
            lbodies = [[b] for b in (list(leaves(style, has_v, small)) + ([] if depth == 1 else [c for c in compounds(depth - 1, style, has_v, True) if c[0] not in ("gp", "m", "add")]))]
            for body in lbodies:
                yield ("loop", n, style, body)
    if not small:
        for reg in ("R9", "R0"):
            yield ("loop", 2, "ctx", [("add", ("arr", "i"), 1, None)], 0, 1, reg)
            yield ("loop", 2, "fn", [("m", "1", ("arr", "i"))], 0, 1, reg)
            yield ("loop", 2, "ctx", [("loop", 2, "ctx", [("add", ("arr", 0), ("i",), None)])], 0, 1, reg)
        for start, stop, step in ((1, 3, 1), (0, 4, 2), (1, 3, 2), (3, 0, -1), (2, 0, -2), (3, 1, -1)):     # incl. counting down
            yield ("loop", stop, "ctx", [("add", ("arr", 0), 1, None)], start, step)
            yield ("loop", stop, "fn", [("gp", "x")], start, step)
    for k in ("foreach", "enum"):
        il = "ctx" if k == "enum" else None
        fb = [[b] for b in (list(leaves(il, True, small)) + ([] if depth == 1 else
                            [c for c in compounds(depth - 1, il, True, True) if c[0] not in ("gp", "m", "add")]))]
        for body in fb:
            yield (k, body)
    for mx in ((1, 3) if not small else (3,)):
        for prep in ("+", "1", "0"):
            for v in (0, 1):
                for extra in ([[]] if small else [[], [("gp", "x")], [("add", ("arr", 0), 1, None)]]):
                    yield ("until", mx, prep, v, extra)


def pool_singles():
    return list(compounds(2))


def pool_reduced():
    out = list(leaves(None, False))
    out += [("if", "eq", ("arr", 0), 1, "ctx", [("gp", "x")]), ("if", "lt", ("arr", 0), ("arr", 1), "cb", [("add", ("arr", 0), 1, None)]),
            ("if", "nz", ("lastm",), None, "ctx", [("gp", "x")]), ("if", "ge", ("lastreg",), 1, "cb", [("gp", "h")]),
            ("if", "ez", ("arr", 1), None, "cb", [("m", "+", ("arr", 1))]),
            ("loop", 2, "ctx", [("add", ("arr", "i"), 1, None)]), ("loop", 3, "fn", [("m", "+", ("arr", "i"))]),
            ("loop", 2, "ctx", [("if", "eq", ("arr", "i"), 1, "ctx", [("gp", "x")])]),
            ("foreach", [("add", ("v",), 1, 2)]), ("enum", [("m", "1", ("arr", "i"))]),
            ("enum", [("if", "ne", ("v",), 1, "ctx", [("gp", "x")])]),
            ("until", 3, "+", 0, []), ("until", 3, "+", 1, [("gp", "x")]), ("until", 2, "1", 1, [])]
    return out


def pool_small():
    return [("gp", "x"), ("m", "+", ("new",)), ("m", "1", ("arr", 0)), ("m", "+", ("reg",)), ("add", ("arr", 0), 1, None),
            ("add", ("arr", 1), ("arr", 0), 2), ("if", "eq", ("lastm",), 1, "ctx", [("gp", "x")]),
            ("if", "ge", ("arr", 0), 2, "cb", [("add", ("arr", 1), 1, None)]), ("loop", 2, "ctx", [("add", ("arr", "i"), 1, None)]),
            ("foreach", [("add", ("v",), 1, None)]), ("until", 3, "+", 0, []), ("add", ("lastreg",), 1, None)]


def shard_singles(shard):
    _, lo, stride = shard
    part = new_part()
    pool = pool_singles()[lo::stride]
    for s in pool:
        for init in INITS:
            run_case([s], set(), init, part)
        count(part, f"kind/{s[0]}")
    if lo == 0:
        add_sample(part, {"program": [pool[-1]], "init": INITS[0]})
    return part


def shard_pairs(shard):
    _, first = shard
    part = new_part()
    pool = pool_reduced()
    for second in pool:
        for fl in (set(), {0}):
            for init in (INITS[0], INITS[2]):
                run_case([pool[first], second], fl, init, part)
    count(part, "pairs", len(pool))
    if first == 0:
        add_sample(part, {"program": [pool[0], pool[-1]], "flush_after": [0]})
    return part


def shard_pairs_nv(shard):
    _, first, config = shard
    part = new_part()
    pool = pool_reduced()
    for second in pool_small():
        for fl in (set(), {0}):
            run_case([pool[first], second], fl, INITS[0], part, config=config)
    count(part, f"pairs-{config}", len(pool_small()))
    return part


def shard_triples(shard):
    _, first, tier = shard
    part = new_part()
    pool = pool_small() if tier == "quick" else pool_reduced()
    third_pool = pool_small()
    for second in pool:
        for third in third_pool:
            for fl in (set(), {0}, {1}, {0, 1}):
                run_case([pool[first], second, third], fl, INITS[0], part)
    count(part, "triples")
    return part


def extra_programs():
    """Programs outside the statement grammar above: less-used entry points and operand shapes.
    (prog, flush sets, inits)"""
    out = []
    incr = ("add", ("lastreg",), 2, None)
    users = [("add", ("lastreg",), 1, None), ("if", "ge", ("lastreg",), 1, "cb", [("gp", "h")]),
             ("loop", 3, "fn", [("add", ("lastreg",), 1, None)]), ("loop", 2, "ctx", [("add", ("lastreg",), ("i",), None)]),
             ("add", ("arr", 0), ("lastreg",), None), ("foreach", [("add", ("v",), ("lastreg",), None)])]
    # conn.builder.new_register: the register the host holds must survive every construct that takes registers itself
    for v in (0, 7):
        for x in pool_reduced() + users:
            out.append(([("newreg", v), x], [set()], [INITS[0]]))
            out.append(([("newreg", v), x, incr], [set()], [INITS[0]]))
        out.append(([("newreg", v), ("newreg", v + 1), ("add", ("lastreg",), 1, None)], [set()], [INITS[0]]))
    # an array entry indexed by a Future (A0[A0[k]]) as measurement target, add target, add operand and condition operand
    aa = []
    for k in (0, 1):
        aa += [[("m", "1", ("aa", k))], [("m", "+", ("aa", k))], [("add", ("aa", k), 1, None)], [("add", ("aa", k), ("arr", 1 - k), None)],
               [("add", ("arr", k), ("aa", 1 - k), 2)], [("add", ("aa", k), ("aa", 1 - k), None)],
               [("if", "eq", ("aa", k), 1, "ctx", [("gp", "x")])], [("if", "lt", ("arr", k), ("aa", k), "cb", [("add", ("aa", k), 1, None)])],
               [("loop", 2, "ctx", [("add", ("aa", k), 1, None)])], [("foreach", [("add", ("aa", k), ("v",), None)])]]
    for p in aa:
        out.append((p, [set()], INITS))
        for x in pool_small():
            out.append((p + [x], [set(), {0}], [INITS[0], INITS[2]]))
            out.append(([x] + p, [set(), {0}], [INITS[0]]))
    # conditionals and loops whose body emits nothing (what was queued before them must survive)
    firsts = [("gp", "x"), ("m", "1", ("arr", 0)), ("add", ("arr", 0), 1, None), ("m", "+", ("new",))]
    for x in firsts:
        for style in ("ctx", "cb"):
            for cmp, a, b in (("eq", ("arr", 0), 1), ("nz", ("arr", 1), None), ("lt", ("arr", 0), ("arr", 1)), ("ge", ("arr", 1), 1)):
                empty = ("if", cmp, a, b, style, [])
                out.append(([x, empty], [set()], [INITS[0], INITS[1]]))
                out.append(([x, empty, ("add", ("arr", 1), 1, None)], [set(), {1}], [INITS[0]]))
        out.append(([x, ("loop", 2, "ctx", [])], [set()], [INITS[0]]))
        out.append(([x, ("loop", 2, "fn", []), ("gp", "h")], [set()], [INITS[0]]))
        out.append(([x, ("foreach", [])], [set()], [INITS[0]]))
    # a second (third) measurement into a register handle that already holds a register
    for p1 in ("+", "1", "0"):
        for p2 in ("+", "1", "0"):
            base = [("m", p1, ("reg",)), ("m", p2, ("lastreg",))]
            out.append((base, [set()], [INITS[0]]))
            out.append((base + [("if", "eq", ("lastreg",), 1, "ctx", [("gp", "x")])], [set()], [INITS[0]]))
            out.append((base + [("add", ("arr", 0), ("lastreg",), None)], [set()], [INITS[0]]))
            out.append((base + [("m", p1, ("lastreg",)), ("if", "nz", ("lastreg",), None, "cb", [("gp", "h")])], [set()], [INITS[0]]))
    out.append(([("newreg", 0), ("m", "1", ("lastreg",)), ("add", ("arr", 0), ("lastreg",), None)], [set()], [INITS[0]]))
    # single-operand conditions on a register the host holds (the condition must not give the register away)
    for v in (0, 1):
        for cmp in ("ez", "nz"):
            for style in ("ctx", "cb"):
                cond = ("if", cmp, ("lastreg",), None, style, [("gp", "x")])
                for x in users + [("until", 2, "1", 0, []), ("m", "1", ("new",))]:
                    out.append(([("newreg", v), cond, x, incr, ("if", "eq", ("lastreg",), v + 2, "ctx", [("gp", "z")])], [set()], [INITS[0]]))
                out.append(([("newreg", v), cond, ("loop", 2, "ctx", [("gp", "y")]), ("add", ("arr", 0), 5, None),
                             ("if", "eq", ("lastreg",), v, "ctx", [("gp", "z")])], [set()], [INITS[0]]))
    # conn.try_until_success: what was queued before the context, the body, and what follows all reach the controller once
    for body in ([("m", "1", ("arr", 0))], [("gp", "h"), ("m", "+", ("new",))], [("add", ("arr", 1), 2, None)], []):
        for mx in (1, 3):
            t = ("try", mx, body)
            out.append(([t], [set()], [INITS[0]]))
            for x in firsts + pool_small()[:4]:
                out.append(([x, t], [set(), {0}], [INITS[0]]))
                out.append(([x, t, ("add", ("arr", 1), 1, None)], [set(), {1}], [INITS[0]]))
        out.append(([("loop", 2, "ctx", [("gp", "x"), ("try", 2, body)])], [set()], [INITS[0]]))
    # handles of an array slice (start / stop / step as Python's slice(...) means them)
    for sl in ((0, 3, 1), (0, 3, 2), (1, 3, 2), (1, 3, 1), (0, 2, 1), (None, 2, None), (1, None, None), (None, None, 2), (None, 3, 2),
               (0, 3, None), (2, 0, -1), (None, None, None)):
        out.append(([("sliceadd", sl, 4)], [set()], [INITS[2]]))
        out.append(([("slicem", sl)], [set()], [INITS[2]]))
        out.append(([("add", ("arr", 2), 1, None), ("sliceadd", sl, 1), ("foreach", [("add", ("v",), 1, None)])], [set(), {0}], [INITS[2]]))
    # loop_until with exit bounds on both sides of the values the condition register can take
    for v in (-1, -2, 0, 1, 2):
        for prep in ("1", "0", "+"):
            out.append(([("until", 3, prep, v, [])], [set()], [INITS[0]]))
            out.append(([("until", 2, prep, v, [("add", ("arr", 0), 1, None)]), ("gp", "x")], [set()], [INITS[0]]))
    # measurement in a named Pauli basis: eigenstates give their eigenvalue's bit, other states both outcomes
    for prep in ([], ["x"], ["h"], ["x", "h"], ["h", "s"], ["x", "h", "s"]):
        for basis in ("Z", "X", "Y"):
            out.append(([("mb", prep, basis)], [set()], [INITS[0]]))
            out.append(([("mb", prep, basis), ("if", "eq", ("lastm",), 1, "ctx", [("gp", "x")])], [set(), {0}], [INITS[0]]))
    # additions of 0 with a modulus (a "nothing to add" shortcut must still reduce), on array entries and registers
    for mod in (1, 2, 3):
        out.append(([("add", ("arr", 0), 0, mod)], [set()], INITS))
        out.append(([("add", ("arr", 1), 2, None), ("add", ("arr", 1), 0, mod)], [set(), {0}], INITS))
        out.append(([("m", "1", ("reg",)), ("add", ("lastreg",), 2, None), ("add", ("lastreg",), 0, mod)], [set()], [INITS[0]]))
        out.append(([("newreg", 7), ("add", ("lastreg",), 0, mod)], [set()], [INITS[0]]))
        out.append(([("add", ("arr", 0), ("arr", 1), None), ("add", ("arr", 0), ("arr", 1), mod)], [set()], INITS))
    return out


def shard_extra(shard):
    _, lo, stride = shard
    part = new_part()
    for prog, flush_sets, inits in extra_programs()[lo::stride]:
        for fl in flush_sets:
            for init in inits:
                run_case(prog, fl, init, part)
        count(part, "extra-programs")
    return part


ARRAY_OPS = [("new", (5, 6)), ("new", (0, 0, 0)), ("newlen", 2), ("flush",), ("add",), ("meas",), ("flush_nb",)]


def shard_array_lifecycle(shard):
    """Arrays over their whole life: created with / without initial values, in a subroutine of their own or together with
    other work, written by later subroutines, on connections with and without the ret_arr option.  After every flush the
    controller holds exactly the arrays of the model; with return_arrays the host handles read the same values."""
    from netqasm.sdk.qubit import Qubit
    _, first, depth = shard
    part = new_part()
    for rest in itertools.product(range(len(ARRAY_OPS)), repeat=depth - 1):
        ops = [ARRAY_OPS[first]] + [ARRAY_OPS[i] for i in rest] + [("flush",)]
        for return_arrays in (True, False):
            case = {"array_lifecycle": [list(o) for o in ops], "return_arrays": return_arrays}
            part["evals"] += 1
            part["distinct"] += 1
            world.reset()
            ctrl, conn = simctl.make_pair("alice", horizon=1500, return_arrays=return_arrays)
            ex = ctrl.executor
            ex.chooser = lambda p0, p1: 1 if p1 > 1e-9 else 0
            model: Dict[int, List[Any]] = {}        # what the controller must hold after the next flush
            handles: Dict[int, Any] = {}
            pending: List[Any] = []
            ok = True
            try:
                for op in ops:
                    if op[0] in ("new", "newlen"):
                        vals = list(op[1]) if op[0] == "new" else [None] * op[1]
                        arr = conn.new_array(len(vals), init_values=(vals if op[0] == "new" else None))
                        handles[arr.address] = arr
                        pending.append(("decl", arr.address, vals))
                    elif op[0] == "add":
                        tgt = [a for a, h in handles.items() if all(v is not None for v in _model_after(model, pending).get(a, [None]))]
                        if not tgt:
                            continue
                        a = tgt[-1]
                        handles[a].get_future_index(0).add(1)
                        pending.append(("add", a))
                    elif op[0] == "meas":
                        if not handles:
                            continue
                        a = sorted(handles)[-1]
                        q = Qubit(conn)
                        q.X()
                        q.measure(future=handles[a].get_future_index(len(handles[a]) - 1))
                        pending.append(("set", a, len(handles[a]) - 1, 1))
                    else:
                        conn.flush(block=(op[0] != "flush_nb"))      # flush(block=False): same subroutine, the host does not wait
                        model = _model_after(model, pending)
                        pending = []
                        got = {int(a): list(v) for a, v in ex.classical_snapshot(conn.app_id)["arrays"].items()}
                        if got != model:
                            add_violation(part, "array-lifecycle/controller-arrays" + ("" if return_arrays else "/no-ret_arr"),
                                          f"after the flush the controller holds arrays {got}, the program created and wrote {model}", case)
                            ok = False
                            break
                        if return_arrays:
                            host = {a: [h[i] for i in range(len(h))] for a, h in handles.items() if a in model}
                            if host != model:
                                add_violation(part, "array-lifecycle/host-handles", f"after the flush the host reads {host}, the controller "
                                              f"holds {model}", case)
                                ok = False
                                break
            except (simctl.Horizon, simctl.Blocked) as exc:
                add_violation(part, "array-lifecycle/does-not-finish", f"{type(exc).__name__}: {exc}", case)
                ok = False
            except Exception as exc:
                _guard(exc)
                add_violation(part, f"array-lifecycle/raises/{type(exc).__name__}", f"{type(exc).__name__}: {str(exc).splitlines()[0][:160] if str(exc) else ''}", case)
                ok = False
            if ok:
                count(part, "array-lifecycle-agree")
    return part


def _model_after(model, pending):
    m = {a: list(v) for a, v in model.items()}
    for p in pending:
        if p[0] == "decl":
            m[p[1]] = list(p[2])
        elif p[0] == "add":
            m[p[1]][0] += 1
        elif p[0] == "set":
            m[p[1]][p[2]] = p[3]
    return m


def _dispatch(shard):
    return {"arrays": shard_array_lifecycle, "extra": shard_extra, "single": shard_singles, "pair": shard_pairs, "triple": shard_triples, "pairnv": shard_pairs_nv}[shard[0]](shard)


def _det(stmt):
    p = new_part()
    run_case([stmt], set(), INITS[0], p)
    return (p["evals"], sorted(p["counters"].items()), [(v["fingerprint"], v["case"]) for v in p["violations"]])


def run(ctx):
    ctx.determinism("single statements", _det, pool_reduced())
    n = len(pool_singles())
    stride = 256
    shards: List[Any] = [("single", lo, stride) for lo in range(stride)]
    shards += [("pair", i) for i in range(len(pool_reduced()))]
    shards += [("extra", lo, 16) for lo in range(16)]
    shards += [("arrays", first, 3 if ctx.tier == "quick" else 4) for first in range(len(ARRAY_OPS))]
    shards += [("pairnv", i, cfg) for i in range(len(pool_reduced())) for cfg in ("nv", "nv+transpiler")]
    tp = pool_small() if ctx.tier == "quick" else pool_reduced()
    shards += [("triple", i, ctx.tier) for i in range(len(tp))]
    ctx.pmap(_dispatch, shards)
    ctx.extra["single_statement_pool"] = n
    for k in ("gp", "m", "add", "if", "loop", "foreach", "enum", "until"):
        ctx.require(f"kind/{k}", 1)
    ctx.require("agree", 1000)
    ctx.require("pairs", 100)
    ctx.require("pairs-nv", 100)
    ctx.require("pairs-nv+transpiler", 100)
    ctx.require("triples", 5)
    ctx.require("extra-programs", 300)
    ctx.require("array-lifecycle-agree", 300)


def replay(case, part):
    if "array_lifecycle" in case:
        ops = [tuple(tuple(x) if isinstance(x, list) else x for x in o) for o in case["array_lifecycle"]]
        first = [i for i, o in enumerate(ARRAY_OPS) if o == ops[0]][0]
        p = shard_array_lifecycle(("arrays", first, len(ops) - 1))
        part["violations"].extend(v for v in p["violations"] if v["case"] == case)
        return

    def fix(x):
        if isinstance(x, list):
            # statements are tuples whose bodies are lists of tuples
            return [fix(y) for y in x]
        return x

    def stmt(s):
        s = list(s)
        out = []
        for i, x in enumerate(s):
            if isinstance(x, list) and x and isinstance(x[0], list):
                out.append([stmt(y) for y in x])
            elif isinstance(x, list) and (not x):
                out.append([])
            elif isinstance(x, list):
                out.append(tuple(x))
            else:
                out.append(x)
        return tuple(out)
    prog = [stmt(s) for s in case["program"]]
    run_case(prog, set(case["flush_after"]), case["init"], part, config=case.get("config", "generic"))
