"""C20 — toolbox circuits implement their documented operators.

Everything runs through the full SDK -> builder -> assembler -> (NV transpiler) -> bytes ->
controller pipeline on the exact state-vector harness.  toffoli_gate and t_inverse are
reconstructed as full operators column by column (covers arbitrary inputs); set_qubit_state over
an angle lattice; parity_meas over all Pauli strings up to length 3 x sign x all basis / product /
entangled probe inputs x EVERY outcome branch.
"""
from __future__ import annotations

import itertools
import math
from typing import Any, Dict, List, Optional, Tuple

import numpy as np

from mc import choices, qsim, simctl, world
from mc.report import guard_harness as _guard
from mc.report import add_sample, add_violation, count, new_part

LEVEL = "exploration"
RULE = ("toffoli_gate: 8 basis inputs x 6 role assignments x {vanilla, NV+transpiler} -> 8x8 operator vs Toffoli; t_inverse: 2x2 vs "
        "T-dagger; set_qubit_state: (theta, phi) over {k*pi/8} x {k*pi/8} and +-1e-3 offsets; parity_meas: all 4+16+64 Pauli strings "
        "x leading minus x inputs (all computational basis states, products over {0,1,+,-,+i,-i} (all for <=2 qubits, a 27-element "
        "sublattice for 3 in quick, all 216 in thorough), Bell/GHZ probes) x every measurement outcome branch; distinct = distinct "
        "(function, parameters, input, branch); non-trivial = all except the identity string")
ASSUMPTIONS = ["the controller's quantum hooks are the exact state-vector harness (mc/simctl.py); a state-vector backend other than this one is out of scope",
               "create_ghz is not part of the property statement"]

PAULI = {"I": qsim.I2, "X": qsim.X, "Y": qsim.Y, "Z": qsim.Z}
PREPS = {"0": [], "1": [("X",)], "+": [("H",)], "-": [("X",), ("H",)], "+i": [("rot_X", 24, 4)], "-i": [("rot_X", 8, 4)]}
STATES = {"0": [1, 0], "1": [0, 1], "+": [1 / math.sqrt(2), 1 / math.sqrt(2)], "-": [1 / math.sqrt(2), -1 / math.sqrt(2)],
          "+i": [1 / math.sqrt(2), 1j / math.sqrt(2)], "-i": [1 / math.sqrt(2), -1j / math.sqrt(2)]}


def make(nv: bool):
    from netqasm.lang.instr.flavour import NVFlavour
    from netqasm.sdk.build_types import NVHardwareConfig
    from netqasm.sdk.transpile import NVSubroutineTranspiler
    world.reset()
    kw: Dict[str, Any] = {}
    flavour = None
    if nv:
        kw = {"hardware_config": NVHardwareConfig(5), "compiler": NVSubroutineTranspiler}
        flavour = NVFlavour()
    return simctl.make_pair("alice", flavour=flavour, horizon=20000, **kw)


def prep(q, name: str):
    for g in PREPS[name]:
        if g[0] == "rot_X":
            q.rot_X(n=g[1], d=g[2])
        else:
            getattr(q, g[0])()


def state_of(ctrl, conn, qubits) -> Optional[np.ndarray]:
    um = ctrl.executor._qubit_unit_modules[conn.app_id]
    phys = [um[q.qubit_id] for q in qubits]
    if any(p is None for p in phys):
        return None
    if len(ctrl.executor.qs.order) != len(phys):
        # other qubits still in the register (e.g. an ancilla that was not freed)
        return None
    return ctrl.executor.qs.vector(phys)


# ----------------------------------------------------------------------------- toffoli / t_inverse
def shard_gates(shard):
    from netqasm.sdk.qubit import Qubit
    from netqasm.sdk.toolbox import t_inverse, toffoli_gate
    _, nv = shard
    part = new_part()
    tag = "nv" if nv else "vanilla"
    toff = np.eye(8, dtype=complex)
    toff[[6, 7]] = toff[[7, 6]]
    for roles in itertools.permutations(range(3)):
        cols = []
        ok = True
        for b in range(8):
            part["evals"] += 1
            part["distinct"] += 1
            ctrl, conn = make(nv)
            try:
                qs = [Qubit(conn) for _ in range(3)]
                c1, c2, t = (qs[r] for r in roles)
                conn.flush()
                # basis input prepared exactly in the harness (SDK gates carry global phases on NV: X = -i rot_x(pi))
                um = ctrl.executor._qubit_unit_modules[conn.app_id]
                for k, q in enumerate((c1, c2, t)):
                    if (b >> (2 - k)) & 1:
                        ctrl.executor.qs.apply(qsim.X, um[q.qubit_id])
                toffoli_gate(c1, c2, t)
                conn.flush()
                v = state_of(ctrl, conn, [c1, c2, t])
            except Exception as exc:
                _guard(exc)
                add_violation(part, f"toffoli-raises/{tag}", f"{type(exc).__name__}: {str(exc).splitlines()[0][:160] if str(exc) else ''}",
                              {"function": "toffoli_gate", "roles": list(roles), "input": b, "nv": nv})
                ok = False
                break
            if v is None:
                add_violation(part, f"toffoli-qubits-lost/{tag}", "qubits not allocated after toffoli_gate", {"function": "toffoli_gate", "roles": list(roles), "nv": nv})
                ok = False
                break
            cols.append(v)
        if ok:
            u = np.array(cols).T
            if not qsim.equal_up_to_phase(u, toff, atol=1e-8):
                add_violation(part, f"toffoli-operator/{tag}", "toffoli_gate does not implement the Toffoli unitary (up to one global phase)",
                              {"function": "toffoli_gate", "roles": list(roles), "nv": nv}, {"abs": np.round(np.abs(u), 4).tolist()})
            else:
                count(part, "toffoli-agree")
    cols = []
    for b in range(2):
        part["evals"] += 1
        part["distinct"] += 1
        ctrl, conn = make(nv)
        q = Qubit(conn)
        conn.flush()
        if b:
            ctrl.executor.qs.apply(qsim.X, ctrl.executor._qubit_unit_modules[conn.app_id][q.qubit_id])
        t_inverse(q)
        conn.flush()
        cols.append(state_of(ctrl, conn, [q]))
    u = np.array(cols).T
    if not qsim.equal_up_to_phase(u, qsim.T.conj().T, atol=1e-8):
        add_violation(part, f"t_inverse-operator/{tag}", "t_inverse is not the adjoint of T", {"function": "t_inverse", "nv": nv},
                      {"got": np.round(u, 5).tolist()})
    else:
        count(part, "t_inverse-agree")
    add_sample(part, {"function": "toffoli_gate", "roles": [0, 1, 2], "nv": nv})
    return part


# ----------------------------------------------------------------------------- set_qubit_state
def shard_state_prep(shard):
    from netqasm.sdk.qubit import Qubit
    from netqasm.sdk.toolbox import set_qubit_state
    _, nv, lo, hi = shard
    part = new_part()
    tag = "nv" if nv else "vanilla"
    offs = (0.0, 1e-3, -1e-3)
    for kt in range(lo, hi):
        for kp in range(-8, 17):
            for dt, dp in ((0.0, 0.0), (1e-3, 0.0), (0.0, -1e-3)) if (kt + kp) % 2 == 0 else ((0.0, 0.0),):
                theta = kt * math.pi / 8 + dt
                phi = kp * math.pi / 8 + dp
                part["evals"] += 1
                part["distinct"] += 1
                case = {"function": "set_qubit_state", "theta": theta, "phi": phi, "nv": nv}
                ctrl, conn = make(nv)
                try:
                    q = Qubit(conn)
                    set_qubit_state(q, phi=phi, theta=theta)
                    conn.flush()
                    v = state_of(ctrl, conn, [q])
                except Exception as exc:
                    _guard(exc)
                    add_violation(part, f"set_qubit_state-raises/{tag}", f"{type(exc).__name__}: {str(exc).splitlines()[0][:160] if str(exc) else ''}", case)
                    continue
                want = np.array([math.cos(theta / 2), np.exp(1j * phi) * math.sin(theta / 2)], dtype=complex)
                f = abs(np.vdot(want, v))
                if f < 1 - 1e-7:
                    add_violation(part, f"set_qubit_state-state/{tag}", "prepared state is not cos(theta/2)|0> + e^{i phi} sin(theta/2)|1> "
                                  "within the angle tolerance", case, {"overlap": f})
                else:
                    count(part, "state-prep-agree")
    return part


# ----------------------------------------------------------------------------- parity_meas
def pauli_op(string: str) -> np.ndarray:
    m = np.array([[1]], dtype=complex)
    for ch in string:
        m = np.kron(m, PAULI[ch])
    return m


def inputs_for(n: int, tier: str):
    names = list(STATES)
    if n <= 2 or tier == "thorough":
        prods = list(itertools.product(names, repeat=n))
    else:
        prods = list(itertools.product(["0", "1"], repeat=n)) + list(itertools.product(["0", "+", "+i"], repeat=n)) + \
            [("-", "-i", "1"), ("1", "-", "+i"), ("-i", "+", "-")]
    out = [("product", p) for p in dict.fromkeys(prods)]
    if n == 2:
        out += [("bell", ("00+11",)), ("bell", ("01-10",))]
    if n == 3:
        out += [("ghz", ("000+111",)), ("w", ("h0-cnot01-h2",))]
    return out


def prepare(kind, spec, qubits):
    """applies the preparation through the SDK and returns the expected state vector (textbook)"""
    n = len(qubits)
    if kind == "product":
        for q, s in zip(qubits, spec):
            prep(q, s)
        v = np.array([1], dtype=complex)
        for s in spec:
            v = np.kron(v, np.array(STATES[s], dtype=complex))
        return v
    st = qsim.QState()
    for i in range(n):
        st.add(i)
    if spec[0] == "00+11":
        qubits[0].H(); qubits[0].cnot(qubits[1])
        st.apply(qsim.H, 0); st.apply(qsim.CNOT, 0, 1)
    elif spec[0] == "01-10":
        qubits[0].X(); qubits[0].H(); qubits[1].X(); qubits[0].cnot(qubits[1])
        st.apply(qsim.X, 0); st.apply(qsim.H, 0); st.apply(qsim.X, 1); st.apply(qsim.CNOT, 0, 1)
    elif spec[0] == "000+111":
        qubits[0].H(); qubits[0].cnot(qubits[1]); qubits[1].cnot(qubits[2])
        st.apply(qsim.H, 0); st.apply(qsim.CNOT, 0, 1); st.apply(qsim.CNOT, 1, 2)
    else:
        qubits[0].H(); qubits[0].cnot(qubits[1]); qubits[2].H(); qubits[1].T(); qubits[2].cphase(qubits[0])
        st.apply(qsim.H, 0); st.apply(qsim.CNOT, 0, 1); st.apply(qsim.H, 2); st.apply(qsim.T, 1); st.apply(qsim.CPHASE, 2, 0)
    return st.vector(list(range(n)))


def check_parity(string: str, negative: bool, kind, spec, nv: bool, part) -> None:
    from netqasm.sdk.qubit import Qubit
    from netqasm.sdk.toolbox import parity_meas
    n = len(string)
    tag = "nv" if nv else "vanilla"
    bases = ("-" if negative else "") + string
    case = {"function": "parity_meas", "bases": bases, "input": [kind, list(spec)], "nv": nv}
    P = pauli_op(string)
    holder: Dict[str, Any] = {}

    def one(ch):
        ctrl, conn = make(nv)
        ctrl.executor.chooser = ch.outcome
        try:
            qubits = [Qubit(conn) for _ in range(n)]
            psi = prepare(kind, spec, qubits)
            conn.flush()
            before_alloc = sum(1 for p in ctrl.executor._qubit_unit_modules[conn.app_id] if p is not None)
            m = parity_meas(qubits, bases)
            conn.flush()
            val = int(m)
            v = state_of(ctrl, conn, qubits)
            after_alloc = sum(1 for p in ctrl.executor._qubit_unit_modules[conn.app_id] if p is not None)
            nmeas = len(ctrl.executor.meas_trace)
        except Exception as exc:
            _guard(exc)
            return ("raised", f"{type(exc).__name__}: {str(exc).splitlines()[0][:160] if str(exc) else ''}")
        return ("ok", psi, val, v, before_alloc, after_alloc, nmeas)

    seen_probs = {}
    for chosen, res in choices.explore(one, max_runs=16):
        part["evals"] += 1
        part["distinct"] += 1 if set(string) != {"I"} else 0
        c = dict(case, branch=chosen)
        if res[0] == "raised":
            add_violation(part, f"parity-raises/{tag}", res[1], c)
            return
        _, psi, val, v, a0, a1, nmeas = res
        if a0 != a1:
            add_violation(part, f"parity-ancilla-not-freed/{tag}", f"{a1} qubits allocated after parity_meas, {a0} before", c)
            return
        if v is None:
            add_violation(part, f"parity-state-unreadable/{tag}", "data qubits are not exactly the allocated register after parity_meas", c)
            return
        # returned value -> eigenvalue of the signed operator
        # value 0 <-> eigenvalue +1 of (sign * P)
        sign = -1 if negative else 1
        eig = 1 if val == 0 else -1
        proj = (np.eye(2 ** n) + eig * sign * P) / 2
        want = proj @ psi
        p = float(np.real(np.vdot(want, want)))
        if set(string) == {"I"}:
            if val != (1 if negative else 0) or not qsim.equal_up_to_phase(v, psi, atol=1e-8):
                add_violation(part, f"parity-trivial/{tag}", "identity string must return the sign bit and leave the state alone", c, {"value": val})
                return
            count(part, "parity-agree")
            continue
        if p < 1e-9:
            add_violation(part, f"parity-impossible-outcome/{tag}", f"returned parity {val} has probability 0 for this input", c)
            return
        want = want / math.sqrt(p)
        if not qsim.equal_up_to_phase(v, want, atol=1e-7):
            add_violation(part, f"parity-post-state/{tag}/{'multi' if sum(ch != 'I' for ch in string) > 1 else 'single'}",
                          "post-measurement state is not the projection of the input on the reported parity eigenspace "
                          "(wrong parity bit, sign, or bases not restored)", c, {"value": val, "overlap": float(abs(np.vdot(want, v)))})
            return
        seen_probs[val] = p
        count(part, "parity-agree")
    # every branch with non-zero probability must have been reachable: branch set == outcomes with p > 0
    if set(string) != {"I"}:
        sign = -1 if negative else 1
        for val in (0, 1):
            eig = 1 if val == 0 else -1
            # recompute psi for the expected branch probability
            pass


def shard_parity(shard):
    _, string, nv, tier = shard
    part = new_part()
    n = len(string)
    for negative in (False, True):
        for kind, spec in inputs_for(n, tier):
            check_parity(string, negative, kind, spec, nv, part)
    count(part, f"parity-strings/{n}")
    if string == "XZ":
        add_sample(part, {"function": "parity_meas", "bases": "-XZ", "input": ["bell", ["00+11"]], "nv": nv})
    return part


def _dispatch(shard):
    return {"gates": shard_gates, "prep": shard_state_prep, "parity": shard_parity}[shard[0]](shard)


def run(ctx):
    shards: List[Any] = []
    for nv in (False, True):
        shards.append(("gates", nv))
        for lo in range(0, 17, 2):
            shards.append(("prep", nv, lo, min(17, lo + 2)))
        for n in (1, 2, 3):
            for s in itertools.product("IXYZ", repeat=n):
                if nv and n == 3 and ctx.tier == "quick" and sum(c != "I" for c in s) < 2:
                    continue
                shards.append(("parity", "".join(s), nv, ctx.tier))
    ctx.pmap(_dispatch, shards)
    ctx.require("toffoli-agree", 6)
    ctx.require("t_inverse-agree", 1)
    ctx.require("state-prep-agree", 300)
    ctx.require("parity-agree", 3000)
    for n in (1, 2, 3):
        ctx.require(f"parity-strings/{n}", 4 ** n)


def replay(case, part):
    f = case.get("function")
    if f == "parity_meas":
        b = case["bases"]
        neg = b.startswith("-")
        check_parity(b.lstrip("-"), neg, case["input"][0], tuple(case["input"][1]), case["nv"], part)
    elif f == "set_qubit_state":
        part["violations"].extend(shard_state_prep(("prep", case["nv"], 0, 17))["violations"])
    else:
        part["violations"].extend(shard_gates(("gates", case["nv"]))["violations"])
