"""C08 — NV transpilation preserves program behaviour, not only gates.

Deciding step: exhaustive enumeration of vanilla program skeletons of the shape the builder emits
(straight line, if, counted loop, branch to a label just past the end, if-in-loop, measurement
followed by a conditional block) x gate groups x qubit placements x {register written by set, by
load} x debug setting, each transpiled by the REAL NVSubroutineTranspiler, serialised and
deserialised as a controller would receive it, and executed on the independent reference VM with
NV semantics against the original on the reference VM with vanilla semantics (same initial
states incl. entangled probes, same measurement script).
"""
from __future__ import annotations

import itertools
import math
from typing import Any, Dict, List, Optional, Tuple

import numpy as np

from mc import choices, qsim, refvm
from mc.report import guard_harness as _guard
from mc.report import add_sample, add_violation, count, new_part
from props.c04 import to_real

LEVEL = "exploration"
RULE = ("skeletons {straight, if taken / not taken, loop x2, branch to end, if-in-loop, measure-then-if, mov with alloc/free} x "
        "first block over all gate groups [set Q0 a; (set Q1 b;) g] for g in {h,x,t,rot_y(3,2),cnot,cphase} and all placements over "
        "ids {0,1,2}, second block over a reduced set x qubit register written by set or by load from an array x debug in "
        "{False,True}; two two-qubit gates on all pairs of register pairs over Q0..Q2 (straight, loop, if-in-loop) and with a third "
        "register written between the gates and used after them; x 3 initial states (basis, product probe, entangled probe) x all measurement scripts; distinct = distinct "
        "(skeleton, blocks, register source, debug); non-trivial = contains a branch or a two-qubit gate")
ASSUMPTIONS = ["programs of the kind the SDK emits: every gate is preceded by the set/load of its qubit registers (the "
               "live-third-register family relaxes 'immediately preceded' to 'preceded in the same straight-line block')",
               "NV semantics of the reference VM as in C07; vanilla mov is a state transfer onto a fresh target (followed by qfree of the source)",
               "a debug=True subroutine is judged in its serialised form (DebugInstructions serialise to nothing and the base executor refuses them in memory)"]

R = lambda i: ("r", "R", i)
Q = lambda i: ("r", "Q", i)
M = lambda i: ("r", "M", i)

SINGLES = [("h", []), ("x", []), ("t", []), ("rot_y", [3, 2])]
TWOS = ["cnot", "cphase"]


def group1(g, extra, a, src):
    pre = [("set", [Q(0), a])] if src == "set" else [("set", [R(7), a]), ("load", [Q(0), ("entry", 0, R(7))])]
    return pre + [(g, [Q(0)] + extra)]


def group2(g, a, b, src):
    if src == "set":
        pre = [("set", [Q(0), a]), ("set", [Q(1), b])]
    else:
        pre = [("set", [R(7), a]), ("load", [Q(0), ("entry", 0, R(7))]), ("set", [Q(1), b])]
    return pre + [(g, [Q(0), Q(1)])]


def groups(src: str, reduced: bool):
    out = []
    ids = (0, 1) if reduced else (0, 1, 2)
    for g, extra in (SINGLES[:2] if reduced else SINGLES):
        for a in ids:
            out.append((f"{g}@{a}", group1(g, extra, a, src)))
    pairs = [(0, 1), (1, 0), (1, 2)] if reduced else list(itertools.permutations((0, 1, 2), 2))
    for g in TWOS:
        for a, b in pairs:
            out.append((f"{g}@{a},{b}", group2(g, a, b, src)))
    return out


def skeletons(b1, b2):
    """name -> program (numeric branch targets, as assembled by the SDK)"""
    out = {}
    out["straight"] = b1 + [("add", [R(3), R(3), R(5)])] + b2
    for v in (0, 1):
        p = [("set", [R(1), v]), ("bez", [R(1), 0])] + b1
        p[1] = ("bez", [R(1), len(p)])
        out[f"if-{'skipped' if v == 0 else 'taken'}"] = p + b2
    # counted loop, two iterations; exit label just past the end when b2 is empty
    head = [("set", [R(0), 0]), ("set", [R(1), 2])]
    body = b1 + [("add", [R(0), R(0), R(5)])]
    loop = head + [("beq", [R(0), R(1), 0])] + body + [("jmp", [len(head)])]
    loop[len(head)] = ("beq", [R(0), R(1), len(loop)])
    out["loop2"] = loop + b2
    out["loop2-exit-at-end"] = list(loop)
    p = [("set", [R(1), 0]), ("bez", [R(1), 0])] + b1
    p[1] = ("bez", [R(1), len(p)])
    out["branch-to-end"] = p
    # if inside loop: body = [bnz parity skip; b1]
    inner = [("sub", [R(2), R(0), R(5)]), ("bez", [R(2), 0])] + b1
    inner_len = len(inner)
    lp = head + [("beq", [R(0), R(1), 0])]
    start = len(lp)
    inner[1] = ("bez", [R(2), start + inner_len])
    lp = lp + inner + [("add", [R(0), R(0), R(5)]), ("jmp", [len(head)])]
    lp[len(head)] = ("beq", [R(0), R(1), len(lp)])
    out["if-in-loop"] = lp + b2
    # a loop whose label is the very first instruction (do-while: the body runs, then a backward branch to line 0); R8 = 0
    # and R9 = 2 come from the initial state
    out["loop-from-line-0"] = b1 + [("add", [R(8), R(8), R(5)]), ("blt", [R(8), R(9), 0])] + b2
    out["jmp-to-line-0"] = [("bnz", [R(8), 3 + len(b1)])] + b1 + [("add", [R(8), R(8), R(5)]), ("jmp", [0])] + b2
    # measurement, then a block conditioned on the outcome
    p = [("set", [Q(0), 2]), ("meas", [Q(0), M(0)]), ("bez", [M(0), 0])] + b1
    p[2] = ("bez", [M(0), len(p)])
    out["measure-then-if"] = p + b2
    return out


def initial(kind: str, alloc=(0, 1, 2)) -> Tuple[refvm.RefState, refvm.QModel]:
    s = refvm.RefState(unit_size=6)
    s.regs[("R", 5)] = 1
    s.regs[("R", 3)] = 10
    s.regs[("R", 8)] = 0
    s.regs[("R", 9)] = 2
    s.arrays = {0: [0, 1, 2]}
    qm = refvm.QModel()
    for v in alloc:
        s.alloc.add(v)
        qm.alloc(v)
    names = [qm.vmap[v] for v in alloc]
    if not names:
        return s, qm
    if kind == "basis":
        qm.q.apply(qsim.X, names[-1])
    elif kind == "product":
        for k, n in enumerate(names):
            qm.q.apply(qsim.rot("y", 0.4 + 0.5 * k), n)
            qm.q.apply(qsim.rot("z", 0.3 + 0.7 * k), n)
    else:
        qm.q.apply(qsim.H, names[0])
        if len(names) > 1:
            qm.q.apply(qsim.CNOT, names[0], names[1])
            qm.q.apply(qsim.T, names[1])
        if len(names) > 2:
            qm.q.apply(qsim.rot("y", 0.9), names[2])
            qm.q.apply(qsim.CPHASE, names[1], names[2])
            qm.q.apply(qsim.rot("x", 0.35), names[0])
    return s, qm


def transpile_wire(prog, debug: bool):
    """real transpiler -> bytes -> deserialize with the NV flavour; also returns the in-memory instruction list"""
    from netqasm.lang.instr.flavour import NVFlavour
    from netqasm.lang.parsing.binary import deserialize
    from netqasm.lang.subroutine import Subroutine
    from netqasm.sdk.transpile import NVSubroutineTranspiler
    sub = Subroutine(instructions=to_real(prog), app_id=0, netqasm_version=(0, 0))
    out = NVSubroutineTranspiler(sub, debug=debug).transpile()
    mem = list(out.instructions)
    wire = deserialize(bytes(out), NVFlavour())
    return mem, refvm.program_from_subroutine(wire)


def named_regs(prog) -> set:
    out = set()
    for _, ops in prog:
        for o in ops:
            if isinstance(o, tuple):
                if o[0] == "r":
                    out.add((o[1], o[2]))
                elif o[0] in ("entry", "slice"):
                    for x in o[2:]:
                        if isinstance(x, tuple) and x[0] == "r":
                            out.add((x[1], x[2]))
    return out


GATE_MN = {"h", "x", "y", "z", "s", "t", "k", "rot_x", "rot_y", "rot_z", "cnot", "cphase", "mov", "crot_x", "crot_y"}


def static_checks(prog, wire, case, part, fam) -> bool:
    """branch targets reach the expansion of the original target; non-gate instructions keep their order"""
    p = 0
    start = []
    for i, (mn, ops) in enumerate(prog):
        start.append(p)
        if mn in GATE_MN:
            if p < len(wire) and wire[p][0] == "set" and (p + 1 < len(wire) and wire[p + 1][0] in GATE_MN) and \
                    (mn in ("cnot", "cphase") or not (i + 1 < len(prog) and prog[i + 1] == wire[p])):
                # the transpiler's own `set <scratch register> 0` (an expansion never is empty, so a `set` at the place of a
                # two-qubit gate is the transpiler's even when the program's next instruction happens to be the same `set`)
                p += 1
            q = p
            while q < len(wire) and wire[q][0] in ("rot_x", "rot_y", "rot_z", "crot_x", "crot_y"):
                q += 1
            if q == p:
                add_violation(part, f"static/gate-not-expanded/{fam}", f"vanilla gate {mn} has no NV expansion at its place", case, {"wire": wire})
                return False
            p = q
        else:
            if p >= len(wire) or wire[p][0] != mn:
                add_violation(part, f"static/non-gate-order/{fam}", f"non-gate instruction {mn} (original line {i}) is not at its place in the "
                              "transpiled program", case, {"wire": wire, "at": p})
                return False
            wops = wire[p][1]
            for k, (a, b) in enumerate(zip(ops, wops)):
                is_target = mn == "jmp" or (mn in ("bez", "bnz") and k == 1) or (mn in ("beq", "bne", "blt", "bge") and k == 2)
                if not is_target and a != b:
                    add_violation(part, f"static/operand-changed/{fam}", f"operand of non-gate instruction {mn} changed", case, {"wire": wire})
                    return False
            p += 1
    start.append(p)
    tail = wire[p:]
    if tail and not (len(tail) == 1 and tail[0][0] == "set"):
        add_violation(part, f"static/trailing/{fam}", "unexpected trailing instructions after transpilation", case, {"tail": tail})
        return False
    # targets
    p = 0
    for i, (mn, ops) in enumerate(prog):
        if mn == "jmp" or mn in ("bez", "bnz", "beq", "bne", "blt", "bge"):
            t = ops[-1]
            wt = wire[start[i]][1][-1]
            want = start[t] if t < len(prog) else start[len(prog)]
            if t == len(prog) and not tail and wt >= len(wire) and wt == want:
                pass
            if wt != want:
                add_violation(part, f"static/branch-target/{fam}", f"branch at original line {i} targeted line {t}; on the wire it targets "
                              f"{wt}, the expansion of line {t} starts at {want}", case, {"wire": wire})
                return False
            if t == len(prog) and not tail:
                add_violation(part, f"static/no-landing-instruction/{fam}", "a branch to the label just past the end has nothing to land on",
                              case, {"wire": wire})
                return False
    return True


def run_both(prog, wire, init_kind, alloc, case, part, fam) -> None:
    def once(program, script, labels=None):
        s, qm = initial(init_kind, alloc)
        qm.outcome = script.outcome
        vm = refvm.RefVM(program, s, qmodel=qm)
        st = vm.run(max_steps=max(400, 2 * len(program) + 50))     # (straight-line programs longer than the loop bound)
        return vm, st

    def explore(ch):
        return once(prog, ch)
    for chosen, (vm_a, st_a) in choices.explore(explore, max_runs=64):
        part["evals"] += 1
        outcomes = [t[-1] for t in vm_a.qm.trace if t[0] in ("meas", "meas_basis")]
        script = choices.Script(outcomes)
        vm_b, st_b = once(wire, script)
        c = dict(case, initial=init_kind, outcomes=outcomes)
        if st_a[0] in ("unspecified", "unsupported"):
            count(part, "original-unspecified")
            continue
        if st_a[0] != st_b[0] or script.diverged:
            fp = f"dynamic/outcome/{fam}"
            if st_b[0] == "fault" and "unallocated" in str(st_b) and 0 not in vm_b.s.alloc and vm_b.pc < len(wire) \
                    and wire[vm_b.pc][0] in ("rot_x", "rot_y", "rot_z", "crot_x", "crot_y") \
                    and any(vm_b.val(o) == 0 for o in wire[vm_b.pc][1] if isinstance(o, tuple) and o[0] == "r"):
                fp = "carbon-carbon-gate-borrows-free-electron"
            elif fam.startswith("load/") and any(mn in ("cnot", "cphase") for mn, _ in prog):
                fp = "two-qubit-gate-on-register-written-by-load/wrong-decomposition"
            add_violation(part, fp, f"original ends with {st_a}, transpiled program with {st_b}"
                          + (f" ({script.diverged})" if script.diverged else ""), c, {"wire": wire})
            return
        if st_a[0] != "done":
            count(part, f"original-{st_a[0]}")
            continue
        diffs = {}
        for rk in sorted(named_regs(prog)):
            if vm_a.s.regs.get(rk) != vm_b.s.regs.get(rk):
                diffs[f"{rk[0]}{rk[1]}"] = [vm_a.s.regs.get(rk), vm_b.s.regs.get(rk)]
        if vm_a.s.arrays != vm_b.s.arrays or vm_a.s.alloc != vm_b.s.alloc or vm_a.s.shared_arrays != vm_b.s.shared_arrays:
            diffs["memory"] = [vm_a.s.snapshot(), vm_b.s.snapshot()]
        if diffs:
            add_violation(part, f"dynamic/classical-memory/{fam}", "classical memory after the transpiled program differs", c, {"diff": diffs})
            return
        va, vb = vm_a.qm.vector(), vm_b.qm.vector()
        if not qsim.equal_up_to_phase(va, vb, atol=1e-8):
            fpq = f"dynamic/quantum-state/{fam}"
            if fam.startswith("load/") and any(mn in ("cnot", "cphase") for mn, _ in prog):
                fpq = "two-qubit-gate-on-register-written-by-load/wrong-decomposition"
            add_violation(part, fpq, "quantum state after the transpiled program differs from the original "
                          "(wrong decomposition for the qubit the register holds, or a branch landed elsewhere)", c,
                          {"wire": wire, "overlap": float(abs(np.vdot(va, vb))) if np.shape(va) == np.shape(vb) else
                           f"state vectors of {np.size(va)} and {np.size(vb)} amplitudes (different qubits remain)"})
            return
        count(part, "agree")


def check_program(name, prog, src, part, alloc=(0, 1, 2), inits=("basis", "product", "entangled")) -> None:
    fam = f"{src}/{name}"
    results = {}
    for debug in (False, True):
        case = {"skeleton": name, "register_source": src, "debug": debug, "program": prog}
        try:
            mem, wire = transpile_wire(prog, debug)
        except Exception as exc:
            _guard(exc)
            fp = f"transpile-raises/{src}/{type(exc).__name__}"
            if src == "load" and isinstance(exc, AssertionError) and any(mn in ("cnot", "cphase") for mn, _ in prog):
                fp = "two-qubit-gate-on-register-written-by-load/transpiler-asserts"
            add_violation(part, fp, f"transpiler raised {type(exc).__name__}: "
                          f"{str(exc).splitlines()[0][:120] if str(exc) else ''}", case)
            return
        results[debug] = wire
        part["distinct"] += 1
        if not static_checks(prog, wire, case, part, f"{src}/debug={debug}"):
            continue
        for ik in inits:
            run_both(prog, wire, ik, alloc, case, part, f"{src}/debug={debug}")
    if False in results and True in results and results[False] != results[True]:
        add_violation(part, f"debug-changes-program/{src}", "debug=True and debug=False give different programs on the wire",
                      {"skeleton": name, "register_source": src, "program": prog}, {"debug_false": results[False], "debug_true": results[True]})


def shard(sh):
    _, src, idx, tier = sh
    part = new_part()
    g1 = groups(src, False)
    g2 = [("none", [])] + groups(src, True)[:: (3 if tier == "quick" else 1)]
    n1, b1 = g1[idx]
    for n2, b2 in g2:
        for sk, prog in skeletons(b1, b2).items():
            if sk in ("loop2-exit-at-end", "branch-to-end") and n2 != "none":
                continue
            check_program(f"{sk}", prog, src, part)
            count(part, f"skeleton/{sk}")
    count(part, f"group/{n1.split('@')[0]}")
    if idx == 0:
        add_sample(part, {"skeleton": "loop2", "register_source": src, "program": skeletons(b1, [])["loop2"]})
    return part


def shard_mov(sh):
    part = new_part()
    for s, t, alloc in ((0, 2, (0, 1)), (0, 1, (0, 2)), (1, 0, (1, 2)), (2, 0, (1, 2))):
        mv = [("set", [Q(0), t]), ("qalloc", [Q(0)]), ("init", [Q(0)]), ("set", [Q(0), s]), ("set", [Q(1), t]), ("mov", [Q(0), Q(1)]),
              ("set", [Q(0), s]), ("qfree", [Q(0)])]
        for n2, b2 in [("none", [])] + groups("set", False):
            # second block acts on qubits that exist after the move
            live = sorted((set(alloc) - {s}) | {t})
            ids = {ops[1] for mn, ops in b2 if mn == "set" and ops[0][1] == "Q"}
            if not ids <= set(live):
                continue
            for sk, prog in (("mov-straight", mv + b2), ("mov-in-if", [("set", [R(1), 1]), ("bez", [R(1), 2 + len(mv)])] + mv + b2)):
                check_program(sk, prog, "set", part, alloc=alloc)
                count(part, "skeleton/mov")
    return part


def shard_corpus(sh):
    """Vanilla subroutines the REAL builder emits for NV hardware (C05's statement pool: contexts, loops, conditionals,
    measurements, relocations with mov), captured before transpilation, then judged like the skeletons."""
    from netqasm.sdk.build_types import NVHardwareConfig
    from netqasm.sdk.qubit import Qubit
    from props import c05, c16
    _, idx, stride = sh
    part = new_part()
    pool = c05.pool_reduced()
    progs = [[a] for a in pool] + [[a, b] for a in pool for b in c05.pool_small()]
    for stmts in progs[idx::stride]:
        try:
            tree, _st = c05.annotate(stmts)
        except c05.Skip:
            continue

        class Rec(c05.Real):
            def __init__(self):
                self.conn = c16._Capture.make(hardware_config=NVHardwareConfig(5))
                self.P = Qubit(self.conn)
                self.A0 = self.conn.new_array(2, init_values=[0, 1])
                self.locs = {(0, i): self.A0.get_future_index(i) for i in range(2)}
                self.cells, self.cell_segment, self.segment, self.arrs = {}, {}, 0, {0: self.A0}
        try:
            r = Rec()
            for nodes in tree:
                r.build(nodes, {})
            r.conn.flush()
        except Exception:
            count(part, "corpus-sdk-raised")
            continue
        for sub in r.conn.subs:
            prog = refvm.program_from_subroutine(sub)
            if not any(mn in GATE_MN for mn, _ in prog):
                continue
            count(part, "corpus-subroutines")
            if any(mn == "mov" for mn, _ in prog):
                count(part, "corpus-with-mov")
            check_program("sdk-corpus", prog, "set", part, alloc=(), inits=("basis",))
    return part


def shard_regs(sh):
    """Two two-qubit gates in one subroutine whose operands live in *different* qubit registers (Q0..Q2), optionally with a
    third register that is written between the gates and used after the second one: the transpiler's own scratch register for a
    borrowed electron must never be a register the program still relies on, whatever it picked for an earlier gate."""
    _, a, b, c, d, tier = sh
    part = new_part()
    ids1 = [(1, 2), (2, 1), (0, 1), (1, 0)] if tier != "quick" else [(1, 2), (0, 1)]
    ids2 = [(1, 2), (2, 3), (3, 1), (0, 2)] if tier != "quick" else [(2, 3), (0, 2)]
    gates = [(x, y) for x in TWOS for y in TWOS] if tier != "quick" else [("cnot", "cphase"), ("cphase", "cnot")]
    e = [r for r in (0, 1, 2) if r not in (c, d)][0]
    alloc = (0, 1, 2, 3)
    inits = ("product", "entangled")
    for (i1, i2), (i3, i4), (g1, g2) in itertools.product(ids1, ids2, gates):
        b1 = [("set", [Q(a), i1]), ("set", [Q(b), i2]), (g1, [Q(a), Q(b)])]
        b2 = [("set", [Q(c), i3]), ("set", [Q(d), i4]), (g2, [Q(c), Q(d)])]
        sk = skeletons(b1, b2)
        for name in ("straight", "loop2", "if-in-loop"):
            check_program(f"regs-{name}", sk[name], "set", part, alloc=alloc, inits=inits)
            count(part, "skeleton/other-registers")
        for i5 in (3, 0):
            if i5 in (i3, i4):
                continue
            # (a classical instruction separates the two gates: the static segmentation delimits expansions by non-gates)
            prog = b1 + [("set", [Q(e), i5])] + b2 + [("add", [R(3), R(3), R(5)]), ("h", [Q(e)])]
            check_program("regs-live-third-register", prog, "set", part, alloc=alloc, inits=inits)
            count(part, "skeleton/live-third-register")
        # the same with the third register written by `load` only (never by `set`) before the two-qubit gate
        for idx in (1, 2, 0):
            if idx in (i3, i4) or (g1, i1, i2) != (gates[0][0], ids1[0][0], ids1[0][1]):
                continue
            prog = [("set", [R(7), idx]), ("load", [Q(e), ("entry", 0, R(7))])] + b2 + [("add", [R(3), R(3), R(5)]), ("h", [Q(e)])]
            check_program("regs-live-loaded-register", prog, "set", part, alloc=alloc, inits=inits)
            count(part, "skeleton/live-loaded-register")
    if (a, b, c, d) == (0, 1, 1, 2):
        add_sample(part, {"skeleton": "regs-straight", "program": skeletons(
            [("set", [Q(0), 1]), ("set", [Q(1), 2]), ("cnot", [Q(0), Q(1)])], [("set", [Q(1), 2]), ("set", [Q(2), 3]), ("cphase", [Q(1), Q(2)])])["straight"]})
    return part


def shard_many(sh):
    """k carbon-carbon gates written out in one subroutine, k up to 24: whatever the transpiler reserves per gate (scratch
    registers, bookkeeping) must be given back, a long valid program must transpile like a short one"""
    part = new_part()
    for k in (2, 5, 14, 15, 16, 17, 24):
        prog = []
        for i in range(k):
            a, b = ((1, 2), (2, 1), (2, 3))[i % 3]
            prog += [("set", [Q(0), a]), ("set", [Q(1), b]), (TWOS[i % 2], [Q(0), Q(1)])]
        check_program("many-carbon-carbon-gates", prog, "set", part, alloc=(0, 1, 2, 3), inits=("product",))
        count(part, "skeleton/many-carbon-carbon-gates")
    return part


def _dispatch(sh):
    return {"many": shard_many, "s": shard, "mov": shard_mov, "corpus": shard_corpus, "regs": shard_regs}[sh[0]](sh)


def run(ctx):
    shards: List[Any] = [("mov",), ("many",)] + [("corpus", i, 24) for i in range(24)]
    for src in ("set", "load"):
        for idx in range(len(groups(src, False))):
            shards.append(("s", src, idx, ctx.tier))
    for (a, b), (c, d) in itertools.product(itertools.permutations((0, 1, 2), 2), repeat=2):
        shards.append(("regs", a, b, c, d, ctx.tier))
    ctx.pmap(_dispatch, shards)
    ctx.require("skeleton/other-registers", 36 * 8 * 3)
    ctx.require("skeleton/live-third-register", 36 * 8)
    ctx.require("skeleton/live-loaded-register", 36 * 2)
    for sk in ("loop-from-line-0", "jmp-to-line-0", "many-carbon-carbon-gates"):
        ctx.require(f"skeleton/{sk}", 1)
    for sk in ("straight", "if-skipped", "if-taken", "loop2", "loop2-exit-at-end", "branch-to-end", "if-in-loop", "measure-then-if", "mov"):
        ctx.require(f"skeleton/{sk}", 1)
    for g in ("h", "x", "t", "rot_y", "cnot", "cphase"):
        ctx.require(f"group/{g}", 1)
    ctx.require("agree", 500)
    ctx.require("corpus-subroutines", 100)


def replay(case, part):
    def fix(o):
        if isinstance(o, list):
            return tuple(fix(x) for x in o)
        return o
    prog = [(mn, [fix(o) for o in ops]) for mn, ops in case["program"]]
    alloc = (0, 1, 2)
    if case["skeleton"] == "many-carbon-carbon-gates":
        check_program(case["skeleton"], prog, "set", part, alloc=(0, 1, 2, 3), inits=("product",))
        return
    if case["skeleton"].startswith("regs-"):
        check_program(case["skeleton"], prog, case["register_source"], part, alloc=(0, 1, 2, 3), inits=("product", "entangled"))
        return
    if case["skeleton"].startswith("mov"):
        for a in ((0, 1), (0, 2), (1, 2)):
            p = new_part()
            check_program(case["skeleton"], prog, case["register_source"], p, alloc=a)
            if not any(v["fingerprint"].startswith("dynamic/outcome") for v in p["violations"]):
                part["violations"].extend(p["violations"])
                return
        return
    check_program(case["skeleton"], prog, case["register_source"], part, alloc=alloc)
