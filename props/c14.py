"""C14 — compiling never runs out of registers because of finished operations.

(1) Explicit-state BFS over histories of COMPLETED SDK operations on one connection, hashing the
builder's register economy (active R registers, used M registers, registers to return, operations
since the last flush).  If every operation returns the pool to the state it found, the graph closes
and sequences of any length compile; a leak is an ever-growing chain that ends in "could not find
an available register" within the explored depth.  (2) Nesting families executed on the real
controller and compared with direct evaluation (C05's oracle): temporaries of the innermost
operation must not overwrite a live loop counter of an enclosing loop.
"""
from __future__ import annotations

import json
from typing import Any, Callable, Dict, List, Tuple

from mc import simctl, world
from mc.report import guard_harness as _guard
from mc.report import add_sample, add_violation, count, new_part

LEVEL = "model_checking"
RULE = ("BFS over histories of completed SDK operations (if_* context/callback on Future/RegFuture/literal, loop, loop_body, both with and without an explicit loop_register, "
        "loop_until on Future and RegFuture, foreach, enumerate, add variants, measure into array/register/slot, new_array with "
        "equal/distinct initial values, create/recv keep plain / sequential+post / min-fidelity, create/recv context, "
        "create/recv measure, nested composite, flush) with a flush forced at the latest after 15 operations; state = register "
        "economy of the builder; every transition compiles and serialises the real subroutine on a DebugConnection; plus nesting "
        "depth 1..14 x innermost operation kind executed on the real controller; distinct = distinct economy states; "
        "non-trivial = every transition (each runs a real SDK operation)")
ASSUMPTIONS = ["16 measurements into registers without a flush legitimately exhaust the M bank (that operation is disabled then)",
               "fresh-name counters (context ids, labels, array addresses) are not part of the state: they are bounded by 2^31 only",
               "part 1 needs compilation only (DebugConnection); part 2 runs on the harness controller"]

MAX_OPS_BEFORE_FLUSH = 15


# ----------------------------------------------------------------------------- world
class Env:
    def __init__(self, reset: bool = True, name: str = "alice"):
        from netqasm.sdk.connection import DebugConnection
        from netqasm.sdk.epr_socket import EPRSocket
        from netqasm.sdk.qubit import Qubit
        if reset:
            world.reset()
        DebugConnection.node_ids = {"alice": 0, "bob": 1, "charlie": 2}
        self.epr = EPRSocket("bob")
        self.conn = DebugConnection(name, epr_sockets=[self.epr])
        self.A0 = self.conn.new_array(2, init_values=[0, 1])
        self.F0 = self.A0.get_future_index(0)
        self.F1 = self.A0.get_future_index(1)
        self.Q = Qubit(self.conn)
        self.conn.flush()
        self.ops_since_flush = 0
        self.regmeas_since_flush = 0

    def economy(self):
        mm = self.conn.builder._mem_mgr
        return {
            "active": sorted(str(r) for r in mm._active_registers),
            "meas_used": simctl.meas_registers_in_use(mm),
            "to_return": [str(r) for r in mm._registers_to_return],
            "ops_since_flush": self.ops_since_flush,
            "regmeas_since_flush": self.regmeas_since_flush,
            "open_contexts": len(self.conn.builder._pre_context_commands),
        }


def _reg_measure(e: Env):
    from netqasm.sdk.qubit import Qubit
    e.regmeas_since_flush += 1
    return Qubit(e.conn).measure(store_array=False)


def op_if_eq_ctx(e):
    with e.F0.if_eq(1):
        e.Q.X()


def op_if_ne_cb(e):
    e.conn.if_ne(e.F0, e.F1, lambda c: e.Q.X())


def op_if_lt_ctx(e):
    with e.F0.if_lt(2):
        e.Q.H()


def op_if_ge_cb(e):
    e.conn.if_ge(e.F1, 1, lambda c: e.Q.Z())


def op_if_ez_ctx(e):
    with e.F0.if_ez():
        e.Q.X()


def op_if_nz_cb(e):
    e.conn.if_nz(e.F1, lambda c: e.Q.X())


def op_if_eq_reg(e):
    r = _reg_measure(e)
    with r.if_eq(1):
        e.Q.X()


def op_if_ez_reg(e):
    r = _reg_measure(e)
    e.conn.if_ez(r, lambda c: e.Q.X())


def op_loop_ctx(e):
    with e.conn.loop(2):
        e.Q.X()


def op_loop_body(e):
    e.conn.loop_body(lambda c, i: e.Q.H(), stop=2)


def op_loop_ctx_reg(e):
    with e.conn.loop(2, loop_register="R3"):
        e.Q.X()


def op_loop_ctx_reg_hi(e):
    with e.conn.loop(3, start=1, step=2, loop_register="R14"):
        e.Q.X()


def op_loop_body_reg(e):
    e.conn.loop_body(lambda c, i: e.Q.H(), stop=5, start=1, step=2, loop_register="R2")


def op_loop_body_empty(e):
    # a body that emits nothing (e.g. one that only acts under a Python-level condition)
    e.conn.loop_body(lambda c, i: None, stop=3)


def op_loop_index(e):
    from netqasm.sdk.qubit import Qubit
    with e.conn.loop(2) as i:
        q = Qubit(e.conn)
        q.measure(future=e.A0.get_future_index(i))


def op_until_future(e):
    from netqasm.sdk.constraint import ValueAtMostConstraint
    from netqasm.sdk.qubit import Qubit
    with e.conn.loop_until(3) as loop:
        q = Qubit(e.conn)
        q.H()
        m = q.measure()
        loop.set_exit_condition(ValueAtMostConstraint(m, 0))


def op_until_reg(e):
    from netqasm.sdk.constraint import ValueAtMostConstraint
    from netqasm.sdk.qubit import Qubit
    with e.conn.loop_until(3) as loop:
        q = Qubit(e.conn)
        q.H()
        e.regmeas_since_flush += 1
        m = q.measure(store_array=False)
        loop.set_exit_condition(ValueAtMostConstraint(m, 0))


def op_foreach(e):
    with e.A0.foreach() as v:
        v.add(1)


def op_add_indexed_by_future(e):
    # an array entry whose index is itself a Future (A0[A0[0]]): the index needs a temporary of its own
    e.A0.get_future_index(e.F0).add(1)


def op_meas_indexed_by_future(e):
    from netqasm.sdk.qubit import Qubit
    Qubit(e.conn).measure(future=e.A0.get_future_index(e.F0))


def op_add_future_to_indexed(e):
    e.A0.get_future_index(e.F0).add(e.F1)


def op_foreach_empty(e):
    with e.A0.foreach():
        pass


def op_enumerate_empty(e):
    with e.A0.enumerate():
        pass


def op_enumerate(e):
    with e.A0.enumerate() as (i, v):
        with v.if_eq(1):
            e.Q.X()


def op_add_lit(e):
    e.F0.add(1)


def op_add_future_mod(e):
    e.F0.add(e.F1, mod=2)


def op_add_reg(e):
    r = _reg_measure(e)
    r.add(1)
    e.F0.add(r)


def op_add_reg_future(e):
    r = _reg_measure(e)
    r.add(e.F1, mod=3)


def op_meas_new(e):
    from netqasm.sdk.qubit import Qubit
    Qubit(e.conn).measure()


def op_meas_reg(e):
    _reg_measure(e)


def op_meas_slot(e):
    from netqasm.sdk.qubit import Qubit
    q = Qubit(e.conn)
    q.H()
    q.measure(future=e.F1)


def op_meas_inplace(e):
    e.Q.measure(inplace=True)


def op_new_array_equal(e):
    e.conn.new_array(3, init_values=[1, 1, 1])


def op_new_array_distinct(e):
    e.conn.new_array(2, init_values=[1, 2])


def op_create_keep(e):
    (q,) = e.epr.create_keep(1)
    q.measure()


def op_recv_keep(e):
    (q,) = e.epr.recv_keep(1)
    q.measure()


def op_create_keep_post(e):
    def post(conn, q, pair):
        q.H()
        q.measure()
    e.epr.create_keep(number=2, sequential=True, post_routine=post)


def op_recv_keep_post(e):
    def post(conn, q, pair):
        q.measure()
    e.epr.recv_keep(number=2, sequential=True, post_routine=post)


def op_create_keep_minfid(e):
    (q,) = e.epr.create_keep(1, min_fidelity_all_at_end=80, max_tries=3)
    q.measure()


def op_create_context(e):
    with e.epr.create_context(number=2) as (q, pair):
        q.H()
        q.measure()


def op_recv_context(e):
    with e.epr.recv_context(number=2) as (q, pair):
        q.measure()


def op_create_measure(e):
    e.epr.create_measure(number=2)


def op_recv_measure(e):
    e.epr.recv_measure(number=2)


def op_nested(e):
    with e.conn.loop(2) as i:
        with e.A0.get_future_index(i).if_eq(1):
            e.F0.add(e.F1)


def op_flush(e):
    e.conn.flush()
    e.ops_since_flush = -1
    e.regmeas_since_flush = 0


OPS: List[Tuple[str, Callable, int]] = [   # (name, function, register measurements it makes)
    ("if_eq_ctx", op_if_eq_ctx, 0), ("if_ne_cb", op_if_ne_cb, 0), ("if_lt_ctx", op_if_lt_ctx, 0), ("if_ge_cb", op_if_ge_cb, 0),
    ("if_ez_ctx", op_if_ez_ctx, 0), ("if_nz_cb", op_if_nz_cb, 0), ("if_eq_reg", op_if_eq_reg, 1), ("if_ez_reg", op_if_ez_reg, 1),
    ("loop_ctx", op_loop_ctx, 0), ("loop_body", op_loop_body, 0), ("loop_index", op_loop_index, 0),
    ("loop_ctx_reg", op_loop_ctx_reg, 0), ("loop_ctx_reg_hi", op_loop_ctx_reg_hi, 0), ("loop_body_reg", op_loop_body_reg, 0),
    ("loop_body_empty", op_loop_body_empty, 0),
    ("until_future", op_until_future, 0), ("until_reg", op_until_reg, 1),
    ("foreach", op_foreach, 0), ("enumerate", op_enumerate, 0), ("foreach_empty", op_foreach_empty, 0), ("add_indexed_by_future", op_add_indexed_by_future, 0),
    ("meas_indexed_by_future", op_meas_indexed_by_future, 0), ("add_future_to_indexed", op_add_future_to_indexed, 0),
    ("enumerate_empty", op_enumerate_empty, 0),
    ("add_lit", op_add_lit, 0), ("add_future_mod", op_add_future_mod, 0), ("add_reg", op_add_reg, 1), ("add_reg_future", op_add_reg_future, 1),
    ("meas_new", op_meas_new, 0), ("meas_reg", op_meas_reg, 1), ("meas_slot", op_meas_slot, 0), ("meas_inplace", op_meas_inplace, 0),
    ("new_array_equal", op_new_array_equal, 0), ("new_array_distinct", op_new_array_distinct, 0),
    ("create_keep", op_create_keep, 0), ("recv_keep", op_recv_keep, 0), ("create_keep_post", op_create_keep_post, 0),
    ("recv_keep_post", op_recv_keep_post, 0), ("create_keep_minfid", op_create_keep_minfid, 0),
    ("create_context", op_create_context, 0), ("recv_context", op_recv_context, 0),
    ("create_measure", op_create_measure, 0), ("recv_measure", op_recv_measure, 0),
    ("nested", op_nested, 0), ("flush", op_flush, 0),
]
OPI = {name: i for i, (name, _, _) in enumerate(OPS)}


def enabled(e: Env, idx: int) -> bool:
    name, _, regmeas = OPS[idx]
    if name == "flush":
        return True
    if e.ops_since_flush >= MAX_OPS_BEFORE_FLUSH:
        return False
    if e.regmeas_since_flush + regmeas > 16:
        return False
    return True


def apply(e: Env, idx: int):
    name, fn, _ = OPS[idx]
    fn(e)
    e.ops_since_flush += 1


def build(history: List[int]) -> Env:
    e = Env()
    for idx in history:
        apply(e, idx)
    return e


def shard_coexist(shard):
    """The register economy is per connection: with another connection alive in the process - in the middle of a loop, holding
    a loop register, a measurement register and pending commands - every operation must leave this connection's economy
    exactly as it does when the connection is alone."""
    from netqasm.sdk.qubit import Qubit
    part = new_part()
    for idx, (name, fn, _) in enumerate(OPS):
        case = {"coexist": True, "operation": name}
        part["evals"] += 1
        part["distinct"] += 1
        try:
            alone = Env()
            apply(alone, idx)
            want = alone.economy()
            other = Env()
            ctx_mgr = other.conn.loop(3)
            ctx_mgr.__enter__()                      # stays open: holds a loop register
            Qubit(other.conn).measure(store_array=False)
            held = other.economy()
            mine = Env(reset=False, name="charlie")
            apply(mine, idx)
            got = mine.economy()
            after = other.economy()
        except Exception as exc:
            _guard(exc)
            add_violation(part, f"coexisting-connections/raises/{name}", f"{type(exc).__name__}: {str(exc).splitlines()[0][:160] if str(exc) else ''}", case)
            continue
        if got != want:
            add_violation(part, f"coexisting-connections/economy-differs/{name}", f"{name} on a second connection leaves {got}; alone it "
                          f"leaves {want}", case)
        elif after != held:
            add_violation(part, f"coexisting-connections/disturbs-other/{name}", f"{name} on one connection changed the register economy "
                          f"of another connection from {held} to {after}", case)
        else:
            count(part, "coexist-independent")
    return part


def key(e: Env) -> str:
    return json.dumps(e.economy(), sort_keys=True)


def expand(shard):
    part = new_part()
    succ = []
    for history in shard:
        for idx in range(len(OPS)):
            e = build(history)
            if not enabled(e, idx):
                continue
            before = e.economy()
            name = OPS[idx][0]
            case = {"history": [OPS[i][0] for i in history], "operation": name}
            part["evals"] += 1
            part["transitions"] += 1
            count(part, f"op/{name}")
            try:
                apply(e, idx)
            except Exception as exc:
                _guard(exc)
                msg = str(exc).splitlines()[0][:160] if str(exc) else ""
                fp = "out-of-registers" if ("available" in msg and "register" in msg) or "M-registers" in msg else "operation-raises"
                add_violation(part, f"{fp}/{name}", f"after {len(history)} completed operations, {name} fails to compile: "
                              f"{type(exc).__name__}: {msg}", case, {"economy_before": before})
                continue
            after = e.economy()
            nviol_before = sum(n for k, n in part["counters"].items() if k.startswith("violation:"))
            if after["active"] != before["active"]:
                add_violation(part, f"leak/active-register/{name}", f"completed operation {name} leaves classical registers marked in use: "
                              f"{sorted(set(after['active']) - set(before['active']))}", case, {"before": before, "after": after})
            if name != "flush":
                exp_meas = len(before["meas_used"]) + OPS[idx][2]
                if len(after["meas_used"]) != exp_meas:
                    add_violation(part, f"leak/meas-register/{name}", f"completed operation {name} leaves {len(after['meas_used'])} "
                                  f"measurement registers in use, expected {exp_meas}", case, {"before": before, "after": after})
            elif after["meas_used"] or after["to_return"]:
                add_violation(part, "leak/flush", "flush leaves measurement registers / registers-to-return behind", case, {"after": after})
            if after["open_contexts"] != 0:
                add_violation(part, f"leak/open-context/{name}", "completed operation leaves a context open", case, {"after": after})
            if name != "flush":
                # probe: the state key does not hold the pending commands, so what a flush does with THIS operation's pending
                # work (array initialisation loops, register returns) is checked right here, from every state
                k_before_probe = key(e)
                try:
                    op_flush(e)
                    probe = e.economy()
                    if probe["active"] != before["active"]:
                        add_violation(part, f"leak-at-flush/active-register/{name}", f"flushing right after {name} leaves classical registers "
                                      f"marked in use: {sorted(set(probe['active']) - set(before['active']))}", case, {"after_flush": probe})
                    if probe["meas_used"] or probe["to_return"]:
                        add_violation(part, f"leak-at-flush/meas-register/{name}", f"flushing right after {name} leaves measurement "
                                      "registers / registers-to-return behind", case, {"after_flush": probe})
                except Exception as exc:
                    _guard(exc)
                    msg = str(exc).splitlines()[0][:160] if str(exc) else ""
                    add_violation(part, f"flush-raises/{name}", f"flushing right after {name} fails: {type(exc).__name__}: {msg}", case)
                succ_key = k_before_probe
            else:
                succ_key = key(e)
            leaked = sum(n for k, n in part["counters"].items() if k.startswith("violation:")) != nviol_before
            if not leaked:
                # states behind a leaking transition are not expanded: the leak itself is the report, and on a leaking tree
                # the chain of ever larger states would otherwise make the search explode
                succ.append((succ_key, list(history) + [idx]))
    part["_succ"] = succ
    return part


def bfs(ctx, depth: int):
    root = build([])
    seen = {key(root)}
    frontier = [[]]
    ctx.total["states"] += 1
    d = 0
    while frontier and d < depth:
        batch = max(1, len(frontier) // (ctx.jobs * 2) + 1)
        shards = [frontier[i:i + batch] for i in range(0, len(frontier), batch)]
        res = ctx.pmap(expand, shards)
        nxt = []
        for r in res:
            for k, h in r.pop("_succ"):
                if k not in seen:
                    seen.add(k)
                    nxt.append(h)
        ctx.total["states"] += len(nxt)
        ctx.total["distinct"] += len(nxt)
        frontier = nxt
        d += 1
    ctx.extra["bfs_depth_completed"] = d
    ctx.extra["bfs_graph_closed"] = not frontier
    ctx.extra["bfs_frontier_left"] = len(frontier)
    if frontier:
        ctx.total["caps"].append(f"BFS depth cap {depth} reached with {len(frontier)} unexpanded states")
    ctx.total["samples"].append({"history": [OPS[i][0] for i in (frontier[0] if frontier else [OPI['meas_reg'], OPI['if_ez_ctx'], OPI['flush']])]})


def long_history(shard):
    """one operation kind repeated 300 times with a flush every k operations"""
    _, idx, k = shard
    part = new_part()
    e = Env()
    name = OPS[idx][0]
    for n in range(300):
        case = {"history": f"{name} x {n}, flush every {k}", "operation": name}
        part["evals"] += 1
        part["transitions"] += 1
        try:
            apply(e, idx)
            if (n + 1) % k == 0:
                apply(e, OPI["flush"])
        except Exception as exc:
            _guard(exc)
            add_violation(part, f"out-of-registers/{name}", f"{name} repeated {n} times (flush every {k}) fails: {type(exc).__name__}: "
                          f"{str(exc)[:120]}", case)
            break
    count(part, "long-histories")
    return part


# ----------------------------------------------------------------------------- part 2: nesting on the real controller
def nested_program(depth: int, inner):
    """loops nested `depth` deep; at every level, after the inner statement, the level's own counter is added to A0[0]."""
    s = inner
    for level in range(depth):
        n = 2 if level >= depth - 2 else 1
        s = ("loop", n, "ctx", [s, ("add", ("arr", 0), ("i",), None)])
    return [s]


INNERS = [("add", ("arr", 1), 1, None), ("add", ("arr", 1), ("arr", 0), 2), ("if", "eq", ("arr", 1), 1, "ctx", [("gp", "x")]),
          ("if", "lt", ("arr", 0), ("arr", 1), "cb", [("add", ("arr", 1), 1, None)]), ("if", "ez", ("arr", 1), None, "ctx", [("gp", "x")]),
          ("m", "1", ("arr", 1)), ("m", "+", ("new",)), ("foreach", [("add", ("v",), 1, None)]),
          ("until", 2, "+", 0, []), ("loop", 2, "fn", [("add", ("arr", "i"), 1, None)])]


def shard_nesting(shard):
    from props import c05
    _, depth = shard
    part = new_part()
    for inner in INNERS:
        prog = nested_program(depth, inner)
        sub = new_part()
        c05.run_case(prog, set(), [0, 1], sub, case_extra={"nesting_depth": depth})
        part["evals"] += sub["evals"]
        part["transitions"] += sub["evals"]
        ok = sub["counters"].get("agree", 0)
        for v in sub["violations"]:
            msg = json.dumps(v)
            if ("available" in msg and "register" in msg) or "no registers left" in msg:
                # legitimate only if the nesting really needs more than 16 registers: depth + temporaries of the inner operation
                if depth >= 13:
                    count(part, "nesting-exceeds-budget")
                    continue
            part["violations"].append({**v, "fingerprint": "nesting/" + v["fingerprint"].split("/")[0] + f"/{inner[0]}"})
            count(part, "violation:nesting/" + v["fingerprint"].split("/")[0] + f"/{inner[0]}")
        count(part, "nesting-agree", ok)
    count(part, f"nesting-depth/{depth}")
    return part


def _dispatch(shard):
    return {"long": long_history, "nest": shard_nesting}[shard[0]](shard)


def run(ctx):
    depth = 20 if ctx.tier == "quick" else 40
    bfs(ctx, depth)
    shards: List[Any] = [("nest", d) for d in range(1, 15)]
    if ctx.tier == "thorough":
        for idx in range(len(OPS) - 1):
            for k in (1, 5, 15):
                if OPS[idx][2] * k <= 16:
                    shards.append(("long", idx, k))
    ctx.pmap(_dispatch, shards)
    ctx.pmap(shard_coexist, [("coexist",)])
    ctx.require("coexist-independent", len(OPS) - 2)
    for name, _, _ in OPS:
        ctx.require(f"op/{name}", 1)
    ctx.require("nesting-agree", 50)
    for d in (1, 8, 12):
        ctx.require(f"nesting-depth/{d}", 1)


def replay(case, part):
    if case.get("coexist"):
        part["violations"].extend(v for v in shard_coexist(("coexist",))["violations"] if v["case"]["operation"] == case["operation"])
        return
    if "nesting_depth" in case or "program" in case:
        from props import c05
        c05.replay(case, part)
        return
    if isinstance(case.get("history"), str):
        return
    hist = [OPI[n] for n in case["history"]]
    p = expand([hist])
    for v in p["violations"]:
        if v["case"]["operation"] == case["operation"]:
            part["violations"].append(v)
