"""C15 — host/controller messages survive serialisation.

Deciding step: exhaustive enumeration of every message type over per-field
boundary lattices (complete for 8-bit fields) against two backgrounds, and of all
returned arrays of length 0..5 (quick) / 0..6 (thorough) over {None, 0, 1, -1, 2^31-1, -2^31} plus every
single-None / single-defined pattern of lengths 5..64, each serialised and
deserialised by the real code and compared field by field with an independently
written field list.
"""
from __future__ import annotations

import itertools
from typing import Any, Dict, List

from mc import codec
from mc.report import guard_harness as _guard
from mc.report import add_sample, add_violation, count, new_part

LEVEL = "exploration"
RULE = ("message type x (every value of each field's lattice against a low and a high background); arrays: all of length "
        "0..5 (quick) / 0..6 (thorough) over {None,0,1,-1,INT_MAX,INT_MIN}, single-None and single-defined patterns for "
        "lengths 5..64; subroutine messages over short instruction sequences; every sequence of up to 3 (quick) / 4 (thorough) "
        "operations on one message object (serialise, len, str, set a field, edit the value list in place or replace it) "
        "followed by serialise -> deserialise against the object's final state; distinct = distinct (type, field values); "
        "non-trivial = not the all-default message")
ASSUMPTIONS = ["field values inside their declared widths (u8, u32, i32); 32-bit fields on the boundary lattice"]

U32 = sorted({0, 1, 2 ** 32 - 1} | {2 ** k for k in range(32)} | {2 ** k - 1 for k in range(1, 33)} | {2 ** k + 1 for k in range(1, 32)})
I32 = codec.B32
U8 = list(range(256))

HOST_FIELDS = {
    "InitNewAppMessage": [("app_id", U32, 0, 0xA1B2C3D4), ("max_qubits", U8, 0, 0x5A)],
    "OpenEPRSocketMessage": [("app_id", U32, 0, 0xA1B2C3D4), ("epr_socket_id", I32, 0, 0x01020304),
                             ("remote_node_id", I32, 0, -0x01020304), ("remote_epr_socket_id", I32, 0, 0x11223344),
                             ("min_fidelity", U8, 0, 0xC3)],
    "StopAppMessage": [("app_id", U32, 0, 0xA1B2C3D4)],
}
RET_FIELDS = {
    "MsgDoneMessage": [("msg_id", U32, 0, 0xA1B2C3D4)],
}


def _cases(fields):
    seen = set()
    for bg in (1, 2):
        base = tuple(f[1 + bg] for f in fields)
        for p, f in enumerate(fields):
            for v in f[1]:
                c = list(base)
                c[p] = v
                c = tuple(c)
                if c not in seen:
                    seen.add(c)
                    yield c


def check_struct(kind: str, clsname: str, names, values, part):
    from netqasm.backend import messages as M
    cls = getattr(M, clsname)
    case = {"kind": kind, "class": clsname, "fields": dict(zip(names, values))}
    try:
        msg = cls(**dict(zip(names, values)))
        raw = bytes(msg)
        dec = (M.deserialize_host_msg if kind == "host" else M.deserialize_return_msg)(raw)
    except Exception as exc:
        _guard(exc)
        add_violation(part, f"raises/{clsname}", f"{clsname}: serialise/deserialise raised {type(exc).__name__}: {exc}", case)
        return
    if type(dec) is not cls:
        add_violation(part, f"type/{clsname}", f"{clsname} deserialises as {type(dec).__name__}", case)
        return
    got = {n: getattr(dec, n) for n in names}
    if got != dict(zip(names, values)):
        bad = [n for n in names if got[n] != dict(zip(names, values))[n]]
        add_violation(part, f"field/{clsname}/{bad[0]}", f"{clsname}: field {bad[0]} changes in the round trip", case, {"got": got})


def shard_struct(shard):
    _, kind, clsname = shard
    part = new_part()
    fields = (HOST_FIELDS if kind == "host" else RET_FIELDS)[clsname]
    names = [f[0] for f in fields]
    for c in _cases(fields):
        part["evals"] += 1
        part["distinct"] += 1 if any(c) else 0
        check_struct(kind, clsname, names, c, part)
    count(part, f"type/{clsname}", part["evals"])
    add_sample(part, {"class": clsname, "fields": dict(zip(names, [f[3] for f in fields]))})
    return part


def shard_enums(shard):
    from netqasm.backend import messages as M
    part = new_part()
    for sig in M.Signal:
        part["evals"] += 1
        part["distinct"] += 1
        case = {"class": "SignalMessage", "signal": sig.name}
        try:
            dec = M.deserialize_host_msg(bytes(M.SignalMessage(sig)))
            if type(dec) is not M.SignalMessage or M.Signal(dec.signal) is not sig:
                add_violation(part, "field/SignalMessage/signal", "signal changes in the round trip", case)
        except Exception as exc:
            _guard(exc)
            add_violation(part, "raises/SignalMessage", f"{type(exc).__name__}: {exc}", case)
    count(part, "type/SignalMessage", len(M.Signal))
    for ec in M.ErrorCode:
        part["evals"] += 1
        part["distinct"] += 1
        case = {"class": "ErrorMessage", "err_code": ec.name}
        try:
            dec = M.deserialize_return_msg(bytes(M.ErrorMessage(ec)))
            if type(dec) is not M.ErrorMessage or M.ErrorCode(dec.err_code) is not ec:
                add_violation(part, "field/ErrorMessage/err_code", "error code changes in the round trip", case)
        except Exception as exc:
            _guard(exc)
            add_violation(part, "raises/ErrorMessage", f"{type(exc).__name__}: {exc}", case)
    count(part, "type/ErrorMessage", len(M.ErrorCode))
    # every message type byte maps back to its own class
    for mt, cls in M.MESSAGE_CLASSES.items():
        part["evals"] += 1
        if cls.TYPE is not mt:
            add_violation(part, f"type-table/{cls.__name__}", "MESSAGE_CLASSES maps a type to a class of another type", {"class": cls.__name__})
    for mt, cls in M.RETURN_MESSAGE_CLASSES.items():
        part["evals"] += 1
        if cls.TYPE is not mt:
            add_violation(part, f"type-table/{cls.__name__}", "RETURN_MESSAGE_CLASSES maps a type to a class of another type", {"class": cls.__name__})
    return part


def shard_retreg(shard):
    from netqasm.backend import messages as M
    from netqasm.lang import encoding
    _, bank = shard
    part = new_part()
    for idx in range(16):
        for v in I32:
            part["evals"] += 1
            part["distinct"] += 1 if (bank or idx or v) else 0
            case = {"class": "ReturnRegMessage", "register": [bank, idx], "value": v}
            try:
                msg = M.ReturnRegMessage(register=encoding.Register(bank, idx), value=v)
                dec = M.deserialize_return_msg(bytes(msg))
                ok = (type(dec) is M.ReturnRegMessage and dec.register.register_name == bank
                      and dec.register.register_index == idx and dec.value == v)
                if not ok:
                    add_violation(part, "field/ReturnRegMessage", "returned register message changes in the round trip", case,
                                  {"got": [dec.register.register_name, dec.register.register_index, dec.value]})
            except Exception as exc:
                _guard(exc)
                add_violation(part, "raises/ReturnRegMessage", f"{type(exc).__name__}: {exc}", case)
    count(part, "type/ReturnRegMessage", part["evals"])
    return part


ARR_VALUES = [None, 0, 1, -1, codec.INT32_MAX, codec.INT32_MIN]


def check_array(address: int, values: List[Any], part):
    from netqasm.backend import messages as M
    case = {"class": "ReturnArrayMessage", "address": address, "values": values}
    try:
        dec = M.deserialize_return_msg(bytes(M.ReturnArrayMessage(address=address, values=list(values))))
    except Exception as exc:
        _guard(exc)
        add_violation(part, "raises/ReturnArrayMessage", f"{type(exc).__name__}: {exc}", case)
        return
    if type(dec) is not M.ReturnArrayMessage:
        add_violation(part, "type/ReturnArrayMessage", f"decodes as {type(dec).__name__}", case)
        return
    got = dec.values
    if callable(got):
        got = got()
    got = list(got)
    if dec.address != address:
        add_violation(part, "field/ReturnArrayMessage/address", "address changes in the round trip", case, {"got": dec.address})
    if len(got) != len(values):
        add_violation(part, "field/ReturnArrayMessage/length", "array length changes in the round trip", case, {"got": got})
        return
    for a, b in zip(values, got):
        if a is None and b is not None:
            add_violation(part, "field/ReturnArrayMessage/undefined-becomes-number",
                          "an undefined array entry comes back as a number", case, {"got": got})
            return
        if a is not None and (b is None or a != b or isinstance(b, bool)):
            add_violation(part, "field/ReturnArrayMessage/value", "a defined array entry changes in the round trip", case, {"got": got})
            return


def shard_arrays(shard):
    _, mode, arg = shard
    part = new_part()
    if mode == "all":
        n, first = arg
        if n == 0:
            combos = [()]
        else:
            combos = [(first,) + rest for rest in itertools.product(ARR_VALUES, repeat=n - 1)]
        for addr in (0, 3, codec.INT32_MAX):
            for c in combos:
                part["evals"] += 1
                part["distinct"] += 1
                check_array(addr, list(c), part)
        count(part, "arrays-all", len(combos))
        if any(v is None for c in combos for v in c):
            count(part, "arrays-with-undefined")
    elif mode == "patterns":
        n = arg
        for p in range(n):
            for hole, fill in ((None, 7), (-5, None)):
                vals = [fill] * n
                vals[p] = hole
                part["evals"] += 1
                part["distinct"] += 1
                check_array(1, vals, part)
        count(part, "arrays-patterns", 2 * n)
    elif mode == "address":
        for a in I32:
            part["evals"] += 1
            part["distinct"] += 1
            check_array(a, [None, 5, None], part)
        count(part, "arrays-address", len(I32))
    if mode == "all" and arg == (3, None):
        add_sample(part, {"class": "ReturnArrayMessage", "address": 3, "values": [None, 0, -1]})
    return part


def shard_subroutine(shard):
    from netqasm.backend import messages as M
    from netqasm.lang.parsing.binary import deserialize
    from netqasm.lang.subroutine import Subroutine
    from props import c01
    part = new_part()
    for flav in ("vanilla", "nv"):
        reps = c01.representatives(flav)
        classes = {c.mnemonic: c for c in codec.live_classes(flav)}
        seqs = [[]] + [[a] for a in reps] + [[a, b] for a in reps for b in reps]
        for s in seqs:
            part["evals"] += 1
            part["distinct"] += 1
            instrs = [codec.make_instr(classes[m], codec.live_operand_kinds(classes[m]), lv) for m, lv in s]
            sub = Subroutine(instructions=instrs, app_id=9, netqasm_version=(1, 2))
            case = {"class": "SubroutineMessage", "flavour": flav, "mnemonics": [m for m, _ in s]}
            try:
                for ctor_arg in (sub, bytes(sub)):
                    dec = M.deserialize_host_msg(bytes(M.SubroutineMessage(ctor_arg)))
                    if type(dec) is not M.SubroutineMessage or dec.subroutine != bytes(sub):
                        add_violation(part, "field/SubroutineMessage", "subroutine bytes change in the message round trip", case)
                        break
                    back = deserialize(dec.subroutine, codec.flavour(flav))
                    if back.instructions != instrs or back.app_id != 9:
                        add_violation(part, "field/SubroutineMessage", "subroutine in a message decodes differently", case)
                        break
            except Exception as exc:
                _guard(exc)
                add_violation(part, "raises/SubroutineMessage", f"{type(exc).__name__}: {exc}", case)
        count(part, "type/SubroutineMessage", len(seqs))
    # the payload is opaque bytes: every first byte (= every version major, incl. the message-type value itself), repeated
    # prefixes, and every 2-byte header prefix
    payloads = [bytes([a, b, 5, 0]) + bytes([4, 4, 7, 0, 0, 0, 0]) for a in range(256) for b in (0, a, 255)]
    payloads += [bytes([a]) * k for a in (0, 1, 2, 3, 4, 255) for k in (1, 2, 3, 4, 11)]
    payloads += [b""]
    for raw in payloads:
        part["evals"] += 1
        part["distinct"] += 1
        try:
            dec = M.deserialize_host_msg(bytes(M.SubroutineMessage(raw)))
            if type(dec) is not M.SubroutineMessage or dec.subroutine != raw:
                add_violation(part, "field/SubroutineMessage/payload-bytes", "subroutine payload bytes change in the message round trip",
                              {"class": "SubroutineMessage", "payload": raw}, {"got": dec.subroutine})
        except Exception as exc:
            _guard(exc)
            add_violation(part, "raises/SubroutineMessage", f"{type(exc).__name__}: {exc}", {"class": "SubroutineMessage", "payload": raw})
    count(part, "subroutine-payloads", len(payloads))
    return part


# --------------------------------------------------------------------------- object histories
# Message objects are mutable (ctypes fields; ReturnArrayMessage.address / .values, the list is the caller's own list).  A
# message "deserialises from its own bytes ... with the same field values" must hold in every state such an object can be
# brought into, also when it was serialised, measured (len) or printed before: all operation sequences up to a depth.
def _history_ops(target: str):
    """-> (constructor kwargs, [op names]); ops are interpreted by run_history."""
    if target == "ReturnArrayMessage":
        return ["bytes", "len", "str", "address=5", "address=-1", "set0=None", "set0=7", "setlast=-3", "append=None", "append=9",
                "pop", "values=[1,None]", "values=[]"]
    if target == "SubroutineMessage":
        return ["bytes", "len", "sub=A", "sub=B", "sub=empty"]
    fields = (HOST_FIELDS.get(target) or RET_FIELDS.get(target))
    return ["bytes", "len", "str"] + [f"{f[0]}={v}" for f in fields for v in (f[2], f[3])]


SUB_PAYLOADS = {"A": bytes([0, 0, 5, 0]) + bytes([4, 4, 7, 0, 0, 0, 0]), "B": bytes([2, 2, 9, 0]), "empty": b""}


def run_history(target: str, init: int, ops, part) -> None:
    from netqasm.backend import messages as M
    case = {"class": target, "init": init, "history": list(ops)}
    try:
        if target == "ReturnArrayMessage":
            model = {"address": 2, "values": [[], [None, 4], [0]][init]}
            model["values"] = list(model["values"])
            msg = M.ReturnArrayMessage(address=2, values=list(model["values"]))
        elif target == "SubroutineMessage":
            model = {"subroutine": SUB_PAYLOADS["A"]}
            msg = M.SubroutineMessage(SUB_PAYLOADS["A"])
        else:
            fields = (HOST_FIELDS.get(target) or RET_FIELDS.get(target))
            model = {f[0]: (f[2], f[3])[init % 2] for f in fields}
            msg = getattr(M, target)(**model)
        for op in ops:
            if op == "bytes":
                bytes(msg)
            elif op == "len":
                len(msg)
            elif op == "str":
                str(msg)
            elif target == "ReturnArrayMessage":
                vals = model["values"]
                if op.startswith("address="):
                    model["address"] = int(op[8:])
                    msg.address = model["address"]
                elif op.startswith("set0=") or op.startswith("setlast="):
                    if vals:
                        v = None if op.endswith("None") else int(op.split("=")[1])
                        i = 0 if op.startswith("set0") else len(vals) - 1
                        vals[i] = v
                        msg.values[i] = v
                elif op.startswith("append="):
                    v = None if op.endswith("None") else int(op.split("=")[1])
                    vals.append(v)
                    msg.values.append(v)
                elif op == "pop":
                    if vals:
                        vals.pop()
                        msg.values.pop()
                elif op == "values=[1,None]":
                    model["values"] = [1, None]
                    msg.values = [1, None]
                elif op == "values=[]":
                    model["values"] = []
                    msg.values = []
            elif target == "SubroutineMessage":
                model["subroutine"] = SUB_PAYLOADS[op[4:]]
                msg.subroutine = model["subroutine"]
            else:
                name, v = op.split("=")
                model[name] = int(v)
                setattr(msg, name, int(v))
        raw = bytes(msg)
        dec = (M.deserialize_host_msg if target in HOST_FIELDS or target == "SubroutineMessage" else M.deserialize_return_msg)(raw)
    except Exception as exc:
        _guard(exc)
        add_violation(part, f"history-raises/{target}", f"{type(exc).__name__}: {exc}", case)
        return
    if type(dec).__name__ != target:
        add_violation(part, f"history/{target}/type", f"after {list(ops)} the message deserialises as {type(dec).__name__}", case)
        return
    got = {}
    for k in model:
        g = getattr(dec, k)
        if callable(g):
            g = g()
        got[k] = list(g) if isinstance(model[k], list) else g
    for k in model:
        if got[k] != model[k]:
            add_violation(part, f"history/{target}/{k}", f"after {list(ops)} the message holds {k}={model[k]!r} but its bytes "
                          f"deserialise to {k}={got[k]!r}", case)
            return


def shard_history(shard):
    _, target, init, first, depth = shard
    part = new_part()
    ops = _history_ops(target)
    n = 0
    for d in range(0, depth):
        for rest in itertools.product(ops, repeat=d):
            n += 1
            run_history(target, init, (first,) + rest, part)
    part["evals"] += n
    part["distinct"] += n
    count(part, "histories", n)
    count(part, f"histories/{target}", n)
    if first == "bytes" and init == 1 and target == "ReturnArrayMessage":
        add_sample(part, {"class": target, "history": ["bytes", "set0=7", "len"], "oracle": "final bytes deserialise to the final field values"})
    return part


def _dispatch(shard):
    return {"struct": shard_struct, "enums": shard_enums, "retreg": shard_retreg, "arrays": shard_arrays,
            "sub": shard_subroutine, "history": shard_history}[shard[0]](shard)


def run(ctx):
    shards: List[Any] = [("enums",), ("sub",)]
    for k in HOST_FIELDS:
        shards.append(("struct", "host", k))
    for k in RET_FIELDS:
        shards.append(("struct", "ret", k))
    for bank in range(4):
        shards.append(("retreg", bank))
    maxlen = 5 if ctx.tier == "quick" else 6
    shards.append(("arrays", "all", (0, None)))
    for n in range(1, maxlen + 1):
        for first in ARR_VALUES:
            shards.append(("arrays", "all", (n, first)))
    for n in range(5, 65):
        shards.append(("arrays", "patterns", n))
    shards.append(("arrays", "address", None))
    depth = 3 if ctx.tier == "quick" else 4
    targets = ["ReturnArrayMessage", "SubroutineMessage"] + list(HOST_FIELDS) + list(RET_FIELDS)
    for t in targets:
        for init in ((0, 1, 2) if t == "ReturnArrayMessage" else (0, 1) if t != "SubroutineMessage" else (0,)):
            for first in _history_ops(t):
                shards.append(("history", t, init, first, depth + (1 if len(_history_ops(t)) < 8 else 0)))
    ctx.extra["history_depth"] = depth
    ctx.pmap(_dispatch, shards)
    for t in targets:
        ctx.require(f"histories/{t}", 100)
    for t in ("InitNewAppMessage", "OpenEPRSocketMessage", "StopAppMessage", "MsgDoneMessage", "SignalMessage",
              "ErrorMessage", "ReturnRegMessage", "SubroutineMessage"):
        ctx.require(f"type/{t}", 1)
    ctx.require("arrays-all", 1 + 6 + 36 + 216 + 1296)
    ctx.require("arrays-with-undefined", 1)
    ctx.require("arrays-patterns", 100)
    ctx.require("subroutine-payloads", 700)


def replay(case, part):
    cls = case.get("class")
    if "history" in case:
        run_history(cls, case["init"], case["history"], part)
    elif cls == "ReturnArrayMessage":
        check_array(case["address"], case["values"], part)
    elif cls in HOST_FIELDS or cls in RET_FIELDS:
        kind = "host" if cls in HOST_FIELDS else "ret"
        names = list(case["fields"])
        check_struct(kind, cls, names, [case["fields"][n] for n in names], part)
    else:
        for sh in (("enums",), ("sub",), ("retreg", 0), ("retreg", 1), ("retreg", 2), ("retreg", 3)):
            part["violations"].extend(_dispatch(sh)["violations"])
