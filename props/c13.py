"""C13 — qubit memory is safe and applications are isolated on the controller.

Explicit-state BFS over controller histories on the REAL QNodeController / Executor /
SharedMemoryManager.  A state is identified by the history that reaches it; build()
creates fresh controllers (after world.reset()) and replays the events.  Two layers are
driven: the message-level lifecycle (bytes(InitNewAppMessage | StopAppMessage |
SubroutineMessage) -> deserialize_host_msg -> QNodeController.handle_netqasm_message,
generator consumed) and the Executor API for entanglement deliveries
(executor._handle_epr_response / _handle_pending_epr_responses).

An *agent* is (controller index, app id).  Events, per agent g:

    init(g, m)      InitNewAppMessage(app id, m)       (also for a registered app: must be rejected or harmless)
    stop(g)         StopAppMessage                     (only when no subroutine of g is in flight)
    qalloc(g, v)    subroutine  set Q0 v; qalloc Q0
    qfree(g, v)     subroutine  set Q0 v; qfree Q0
    gate(g, v)      subroutine  set Q0 v; x Q0; x Q0   (observed between the two X: exactly g's physical qubit is flipped)
    cw(g, kind)     classical writes with app-tagged values (set / array / store / ret_reg / ret_arr; fused in 'coarse' menus)
    recv(g, v)      subroutine declaring qubit-id array and result array, recv_epr for one pair onto virtual id v,
                    wait_all on the result array (the subroutine stays in flight, suspended in the wait), ret_arr
    resp(g)         keep-response for g's outstanding recv_epr: executor._handle_epr_response(LinkLayerOKTypeK(...));
                    handled at once if v is free, otherwise deferred (queued)
    retry(c)        executor._handle_pending_epr_responses() on controller c while a response is queued

A tiny reference model (allocated virtual ids, defined-ness of the few registers/arrays the
menus use, in-flight request) predicts fault / no fault / suspended and which events are
enabled; it never looks at the implementation.

Invariants after every event: (1) (app, virtual) -> physical injective per controller; (2) used
set == mapped set (ids of queued keep-responses tolerated, see ASSUMPTIONS); (3) every
application other than the acting one (and other than those whose queued response the model
says is consumed) is bit-identical before/after: registers, arrays, shared memory (executor's
and SharedMemoryManager's object), unit module, active flag; (4) a faulting subroutine leaves
exactly the state that running only the instructions before the faulting one leaves (replica
run); (5) after stop nothing keyed by the app remains, its qubits are released, and init of
the same id succeeds with an all-undefined state; (6) configurations with two controllers and
equal app ids.

Configurations come in two kinds (see _cfg): 'verbatim' keeps every stale scratch value in the
state (bounded depth), 'tidy' lets every event normalise its own scratch so that the exact
state graph is small enough to be explored until the frontier is empty (closed graph =>
histories of any length over that alphabet).
"""
from __future__ import annotations

import json
import re
from typing import Any, Dict, List, Optional, Tuple

from mc import simctl, world
from mc.report import guard_harness as _guard
from mc.report import add_sample, add_violation, count, new_part
from props.c04 import C, Q, R, to_real

LEVEL = "model_checking"
RULE = ("explicit-state BFS over controller histories (events init/stop/qalloc/qfree/gate/classical-write/recv_epr/"
        "keep-response/early keep-response (before its recv_epr has run)/retry for every agent = (controller, app id) of the configuration, every unit-module size of the "
        "configuration, every virtual id), level-synchronous, canonical state = per-app registers, arrays, shared memory "
        "(executor's and SharedMemoryManager's view), unit modules, used-physical set, request queues, ordered pending "
        "responses, in-flight subroutines with their program counters (subroutine/message ids and leftovers of faulted "
        "subroutines dropped); every transition executed on the real controller from a freshly replayed history; "
        "configurations: 'verbatim' (programs as listed, depth-bounded) and 'tidy' (each event also normalises its own "
        "scratch registers/arrays, explored until the frontier is empty where stated in coverage.bfs); "
        "distinct = distinct canonical states; non-trivial = every transition (each is checked against all invariants)")
ASSUMPTIONS = [
    "environment contract for keep-responses (weakest reasonable): the reported physical qubit is the lowest id that, at "
    "delivery time, is neither marked used by the executor nor carried by a still queued (deferred) response",
    "a host stops an application only when none of its subroutines is in flight (stop(a) is disabled while a recv_epr "
    "subroutine of a is suspended in its wait)",
    "each application uses its own EPR socket id (= app id), at most one outstanding recv_epr request per application",
    "used-physical set: mapped <= used <= mapped + {physical ids of queued keep-responses} is accepted (a queued response "
    "holds a live entangled qubit; reserving it is the only sound repair of the deferred-response defect); after the "
    "response is handled equality is required again",
    "init of an already registered app id must be rejected or harmless (the SDK hands out app ids per application name, "
    "so two application names on one node can both send app id 0)",
    "the controller is mc.simctl.SimController/SimExecutor (abstract and no-op hooks only) with a step horizon",
]

NODES = ["alice", "bob"]          # node ids 0, 1
HORIZON = 400
RECV_WAIT_LINE = 12
MEM_KEYS = ("regs", "arrays", "shared", "mgr", "um", "active")

# a violation with one of these fingerprints leaves the executor itself consistent; the state is still expanded so that
# the rest of the graph is explored while the finding is open
SOFT = ("stop-leaves/SharedMemoryManager",)


# ----------------------------------------------------------------------------- configurations
def _cfg(name, nodes, agents, sizes, classical, tidy, depth, max_states, early=False):
    """tidy=False: event programs exactly as listed above, every stale scratch value stays in the (verbatim) state.
    tidy=True: the same programs followed by a normalisation of their own scratch (a second subroutine `set Q0 0` after
    qalloc/qfree/gate; the recv_epr subroutine ends with `set R4 0; array R3 @0; array R3 @1; ret_arr @1`, R3 = 0), so that
    the *real* state after an event does not remember v / the physical id: the hash stays exact and the graph closes."""
    return {"name": name, "nodes": nodes, "agents": agents, "sizes": sizes, "classical": classical, "tidy": tidy,
            "depth": depth, "max_states": max_states, "early": early}


A2 = [[0, 0], [0, 1]]
A3 = [[0, 0], [0, 1], [0, 2]]
CLOSE = 200          # depth bound of the configurations that are run until the frontier is empty
CONFIGS: Dict[str, List[Dict[str, Any]]] = {
    "quick": [
        _cfg("q/1node-2apps-verbatim-fine", 1, A2, [[1, 2], [1, 2]], "fine", False, 4, 300000),
        _cfg("q/1node-2apps-verbatim", 1, A2, [[1, 2], [1, 2]], "coarse", False, 5, 300000),
        _cfg("q/1node-2apps-tidy", 1, A2, [[1, 2], [1, 2]], "none", True, 7, 300000),
        _cfg("q/1node-2apps-sizes-1-1-closed", 1, A2, [[1], [1]], "none", True, CLOSE, 300000),
        _cfg("q/2nodes-same-app-id", 2, [[0, 0], [1, 0]], [[1, 2], [2]], "coarse", True, 6, 300000),
        _cfg("q/1node-3apps-tidy", 1, A3, [[1], [2], [1]], "none", True, 5, 300000),
        _cfg("q/1node-2apps-early-responses", 1, A2, [[2], [1]], "none", True, 6, 300000, early=True),
    ],
    "thorough": [
        _cfg("t/1node-2apps-verbatim-fine", 1, A2, [[1, 2], [1, 2]], "fine", False, 6, 600000),
        _cfg("t/1node-2apps-verbatim", 1, A2, [[1, 2], [1, 2]], "coarse", False, 7, 600000),
        _cfg("t/1node-2apps-sizes-1-2-closed", 1, A2, [[1], [2]], "none", True, CLOSE, 600000),
        _cfg("t/1node-1app-sizes-1-2-3-closed", 1, [[0, 0]], [[1, 2, 3]], "coarse", True, CLOSE, 600000),
        _cfg("t/1node-1app-size-4-closed", 1, [[0, 0]], [[4]], "none", True, CLOSE, 600000),
        _cfg("t/1node-2apps-tidy", 1, A2, [[1, 2], [1, 2]], "none", True, 9, 600000),
        _cfg("t/1node-3apps-tidy", 1, A3, [[1, 3], [2], [1, 4]], "none", True, 6, 600000),
        _cfg("t/2nodes-3agents", 2, [[0, 0], [0, 1], [1, 0]], [[1, 2], [3], [1, 2]], "coarse", True, 6, 600000),
        _cfg("t/1node-2apps-early-responses-closed", 1, A2, [[2], [1]], "none", True, CLOSE, 600000, early=True),
        _cfg("t/1node-2apps-early-responses", 1, A2, [[1, 2], [1, 2]], "none", True, 8, 600000, early=True),
    ],
}


def tag(cfg, g: int) -> int:
    c, a = cfg["agents"][g]
    return 10 * c + a


# ----------------------------------------------------------------------------- event programs (neutral form)
def prog_qalloc(v):
    return [("set", [Q(0), v]), ("qalloc", [Q(0)])]


def prog_qfree(v):
    return [("set", [Q(0), v]), ("qfree", [Q(0)])]


def prog_gate(v):
    return [("set", [Q(0), v]), ("x", [Q(0)]), ("x", [Q(0)])]


def prog_cw(kind: str, t: int):
    val = 100 + t
    if kind == "set":
        return [("set", [R(0), val])]
    if kind == "ret_reg":
        return [("ret_reg", [R(0)])]
    if kind == "array":
        return [("set", [C(1), 2]), ("array", [C(1), ("addr", 5)])]
    if kind == "store":
        return [("set", [R(1), 1]), ("store", [R(0), ("entry", 5, R(1))])]
    if kind == "ret_arr":
        return [("ret_arr", [("addr", 5)])]
    if kind == "cw1":
        return [("set", [R(0), val]), ("ret_reg", [R(0)])]
    if kind == "cw2":
        return [("set", [C(1), 2]), ("array", [C(1), ("addr", 5)]), ("set", [R(1), 1]),
                ("store", [R(0), ("entry", 5, R(1))]), ("ret_arr", [("addr", 5)])]
    raise KeyError(kind)


CW_KINDS = {"fine": ["set", "array", "store", "ret_reg", "ret_arr"], "coarse": ["cw1", "cw2"], "none": []}


TIDY_Q = [("set", [Q(0), 0])]
TIDY_RECV = [("set", [R(4), 0]), ("array", [R(3), ("addr", 0)]), ("array", [R(3), ("addr", 1)]), ("ret_arr", [("addr", 1)])]


def prog_recv(v: int, remote: int, socket: int, tidy: bool = False):
    """qubit-id array @0 = [v], result array @1 (10 fields), recv_epr for one pair, wait for all fields, return them."""
    return _prog_recv(v, remote, socket) + (TIDY_RECV if tidy else [])


def _prog_recv(v: int, remote: int, socket: int):
    return [("set", [R(2), 1]), ("array", [R(2), ("addr", 0)]), ("set", [R(3), 0]), ("set", [R(4), v]),
            ("store", [R(4), ("entry", 0, R(3))]), ("set", [R(5), 10]), ("array", [R(5), ("addr", 1)]),
            ("set", [R(6), remote]), ("set", [R(7), socket]), ("set", [R(8), 0]), ("set", [R(9), 1]),
            ("recv_epr", [R(6), R(7), R(8), R(9)]),
            ("wait_all", [("slice", 1, R(3), R(5))]),
            ("ret_arr", [("addr", 1)])]


assert prog_recv(0, 1, 0)[RECV_WAIT_LINE][0] == "wait_all"


# ----------------------------------------------------------------------------- reference model (implementation-blind)
def new_agent_model() -> Dict[str, Any]:
    return {"reg": False, "m": 0, "alloc": [], "r0": False, "arr": False, "inflight": None, "delivered": False, "early": False}


def model_enabled(cfg, model) -> List[list]:
    evs: List[list] = []
    for g, ag in enumerate(model):
        for m in cfg["sizes"][g]:
            evs.append(["init", g, m])
        if not ag["reg"]:
            continue
        if ag["inflight"] is None and not ag["early"]:
            evs.append(["stop", g])
        for v in range(ag["m"]):
            evs.append(["qalloc", g, v])
            evs.append(["qfree", g, v])
            evs.append(["gate", g, v])
        for k in CW_KINDS[cfg["classical"]]:
            evs.append(["cw", g, k])
        if ag["inflight"] is None:
            for v in range(ag["m"]):
                evs.append(["recv", g, v])
        elif not ag["delivered"]:
            evs.append(["resp", g])
        if cfg.get("early") and ag["inflight"] is None and not ag["early"]:
            # the remote node created the pair before this node's recv_epr has run: the keep-response arrives first
            evs.append(["early", g])
    for c in range(cfg["nodes"]):
        if any(ag["delivered"] or ag["early"] for g, ag in enumerate(model) if cfg["agents"][g][0] == c):
            evs.append(["retry", c])
    return evs


def _deferred_ready(cfg, model, c: int) -> List[int]:
    """agents on controller c whose queued response can be handled now (target virtual id is free)."""
    return [g for g, ag in enumerate(model)
            if cfg["agents"][g][0] == c and ag["delivered"] and ag["inflight"] not in ag["alloc"]]


def model_step(cfg, model, ev) -> Dict[str, Any]:
    """Updates the model in place; returns the expectation:
       {'outcome': 'done'|'fault'|'suspended'|'reject-or-harmless', 'line': fault line, 'handled': [agents whose queued or
        fresh response is consumed], 'deferred': bool}"""
    kind = ev[0]
    exp: Dict[str, Any] = {"outcome": "done", "line": None, "handled": [], "deferred": False}
    if kind == "retry":
        ready = _deferred_ready(cfg, model, ev[1])
        for g in ready:
            ag = model[g]
            ag["alloc"] = sorted(ag["alloc"] + [ag["inflight"]])
            ag["inflight"], ag["delivered"] = None, False
        exp["handled"] = ready
        return exp
    g = ev[1]
    ag = model[g]
    if kind == "init":
        if ag["reg"]:
            exp["outcome"] = "reject-or-harmless"
            return exp
        ag.update(new_agent_model())
        ag.update({"reg": True, "m": ev[2]})
        return exp
    if kind == "stop":
        ag.update(new_agent_model())
        return exp
    if kind == "qalloc":
        if ev[2] in ag["alloc"]:
            exp.update(outcome="fault", line=1)
        else:
            ag["alloc"] = sorted(ag["alloc"] + [ev[2]])
        return exp
    if kind == "qfree":
        if ev[2] not in ag["alloc"]:
            exp.update(outcome="fault", line=1)
        else:
            ag["alloc"] = [v for v in ag["alloc"] if v != ev[2]]
        return exp
    if kind == "gate":
        if ev[2] not in ag["alloc"]:
            exp.update(outcome="fault", line=1)
        return exp
    if kind == "cw":
        k = ev[2]
        if k in ("set", "cw1"):
            ag["r0"] = True
        elif k == "ret_reg":
            if not ag["r0"]:
                exp.update(outcome="fault", line=0)
        elif k == "array":
            ag["arr"] = True
        elif k == "store":
            if not (ag["r0"] and ag["arr"]):
                exp.update(outcome="fault", line=1)
        elif k == "ret_arr":
            if not ag["arr"]:
                exp.update(outcome="fault", line=0)
        elif k == "cw2":
            ag["arr"] = True
            if not ag["r0"]:
                exp.update(outcome="fault", line=3)
        return exp
    if kind == "recv":
        # a response that arrived early now has its request; it stays queued until the queue is looked at again
        ag["inflight"], ag["delivered"], ag["early"] = ev[2], ag["early"], False
        exp["outcome"] = "suspended"
        return exp
    if kind == "early":
        ag["early"] = True
        exp["deferred"] = True
        # the executor re-examines its whole queue on every delivery
        for h in _deferred_ready(cfg, model, cfg["agents"][g][0]):
            mh = model[h]
            mh["alloc"] = sorted(mh["alloc"] + [mh["inflight"]])
            mh["inflight"], mh["delivered"] = None, False
            exp["handled"].append(h)
        return exp
    if kind == "resp":
        c = cfg["agents"][g][0]
        if ag["inflight"] in ag["alloc"]:
            ag["delivered"] = True
            exp["deferred"] = True
        else:
            ag["alloc"] = sorted(ag["alloc"] + [ag["inflight"]])
            ag["inflight"], ag["delivered"] = None, False
            exp["handled"] = [g]
        # the executor re-examines its whole queue on every delivery
        for h in _deferred_ready(cfg, model, c):
            mh = model[h]
            mh["alloc"] = sorted(mh["alloc"] + [mh["inflight"]])
            mh["inflight"], mh["delivered"] = None, False
            exp["handled"].append(h)
        return exp
    raise KeyError(kind)


def model_of(cfg, history) -> List[Dict[str, Any]]:
    model = [new_agent_model() for _ in cfg["agents"]]
    for ev in history:
        model_step(cfg, model, ev)
    return model


# ----------------------------------------------------------------------------- the real world
def _waiter():
    yield "WAIT"


class World:
    def __init__(self, cfg):
        world.reset()
        self.cfg = cfg
        self.ctls = [simctl.SimController(NODES[i], node_id=i, horizon=HORIZON) for i in range(cfg["nodes"])]
        for c in self.ctls:
            c.executor.on_wait = _waiter
        self.live: Dict[int, Tuple[Any, int]] = {}      # agent -> (suspended controller generator, subroutine id)
        self.msg_id = 0
        self.model = [new_agent_model() for _ in cfg["agents"]]
        self.gate_obs: Optional[Dict[str, Any]] = None

    # ---- message level -------------------------------------------------------------------
    def send(self, c: int, msg) -> Tuple:
        """bytes -> deserialize_host_msg -> handle_netqasm_message.  ('done',) | ('susp', gen) | ('fault', type, text, line)"""
        from netqasm.backend.messages import deserialize_host_msg
        ctl = self.ctls[c]
        ex = ctl.executor
        ex.steps = 0
        ex.wait_polls = 0
        raw = bytes(msg)
        gen = ctl.handle_netqasm_message(msg_id=self.msg_id, msg=deserialize_host_msg(raw))
        self.msg_id += 1
        return self._advance(gen)

    def _advance(self, gen) -> Tuple:
        try:
            for y in gen:
                if y == "WAIT":
                    return ("susp", gen)
        except Exception as exc:  # Horizon/Blocked are BaseExceptions and propagate (broken check)
            _guard(exc)
            text = str(exc).splitlines()[0][:200] if str(exc) else ""
            m = re.match(r"At line (\d+):", text)
            return ("fault", type(exc).__name__, text, int(m.group(1)) if m else None)
        return ("done",)

    def subroutine(self, g: int, prog, hook=None) -> Tuple:
        from netqasm.backend.messages import SubroutineMessage
        from netqasm.lang.subroutine import Subroutine
        c, a = self.cfg["agents"][g]
        ex = self.ctls[c].executor
        sub = Subroutine(instructions=to_real(prog), app_id=a, netqasm_version=(0, 0))
        before_ids = set(ex._subroutines)
        ex.step_hook = hook
        try:
            st = self.send(c, SubroutineMessage(sub))
        finally:
            ex.step_hook = None
        if st[0] == "susp":
            new = sorted(set(ex._subroutines) - before_ids)
            self.live[g] = (st[1], new[-1] if new else -1)
        return st

    def poll(self, g: int) -> Tuple:
        """Lets g's suspended subroutine re-examine its wait condition."""
        gen, sid = self.live[g]
        c, _ = self.cfg["agents"][g]
        ex = self.ctls[c].executor
        ex.steps = 0
        ex.wait_polls = 0
        st = self._advance(gen)
        if st[0] != "susp":
            del self.live[g]
        return st

    # ---- environment: link layer ------------------------------------------------------------
    def response_for(self, g: int):
        from netqasm.qlink_compat import BellState, LinkLayerOKTypeK, ReturnType
        c, a = self.cfg["agents"][g]
        ex = self.ctls[c].executor
        busy = set(ex._used_physical_qubit_addresses)
        busy |= {r.logical_qubit_id for r in ex._pending_epr_responses if getattr(r, "type", None) == ReturnType.OK_K}
        p = 0
        while p in busy:
            p += 1
        t = tag(self.cfg, g)
        return LinkLayerOKTypeK(type=ReturnType.OK_K, create_id=1000 + t, logical_qubit_id=p, directionality_flag=1,
                                sequence_number=2000 + t, purpose_id=a, remote_node_id=1 - c, goodness=3000 + t,
                                goodness_time=4000 + t, bell_state=BellState.PHI_PLUS)

    # ---- one event -----------------------------------------------------------------------------
    def apply(self, ev) -> Dict[str, Any]:
        """Executes the event on the real controller(s) and on the model.  Returns the observation record."""
        from netqasm.backend.messages import InitNewAppMessage, StopAppMessage
        cfg = self.cfg
        kind = ev[0]
        pre_model = json.loads(json.dumps(self.model))
        exp = model_step(cfg, self.model, ev)
        obs: Dict[str, Any] = {"exp": exp, "pre_model": pre_model, "st": None, "polls": {}, "api_error": None, "prog": None}
        if kind == "retry":
            ex = self.ctls[ev[1]].executor
            try:
                ex._handle_pending_epr_responses()
            except Exception as exc:
                _guard(exc)
                obs["api_error"] = f"{type(exc).__name__}: {str(exc).splitlines()[0][:160] if str(exc) else ''}"
            obs["st"] = ("done",)
            self._poll_after(ev[1], None, obs)
            return obs
        g = ev[1]
        c, a = cfg["agents"][g]
        if kind == "init":
            obs["st"] = self.send(c, InitNewAppMessage(app_id=a, max_qubits=ev[2]))
            if exp["outcome"] == "reject-or-harmless" and obs["st"][0] == "done":
                # accepted alternative 'harmless': the controller treated it as stop + init.  The model cannot know which of
                # the two accepted behaviours the implementation chose, so it follows the observed one.
                ex = self.ctls[c].executor
                if ex._qubit_unit_modules.get(a) == [None] * ev[2] and not _regs(ex._registers.get(a, {})):
                    self.model[g].update(new_agent_model())
                    self.model[g].update({"reg": True, "m": ev[2]})
                    obs["reinit_reset"] = True
        elif kind == "stop":
            obs["st"] = self.send(c, StopAppMessage(app_id=a))
        elif kind in ("qalloc", "qfree"):
            obs["prog"] = prog_qalloc(ev[2]) if kind == "qalloc" else prog_qfree(ev[2])
            obs["st"] = self.subroutine(g, obs["prog"])
            self.tidy(g, obs)
        elif kind == "gate":
            obs["prog"] = prog_gate(ev[2])
            ex = self.ctls[c].executor
            seen = {"n": 0, "ones": None}

            def hook(sid, cmd, ex=ex, seen=seen):
                if seen["n"] == 2:      # before the second X: exactly one X has been applied
                    seen["ones"] = sorted(p for p in ex.qs.order if ex.qs.probabilities(p)[1] > 0.5)
                seen["n"] += 1

            obs["st"] = self.subroutine(g, obs["prog"], hook)
            obs["gate_ones"] = seen["ones"]
            self.tidy(g, obs)
        elif kind == "cw":
            obs["prog"] = prog_cw(ev[2], tag(cfg, g))
            obs["st"] = self.subroutine(g, obs["prog"])
        elif kind == "recv":
            obs["prog"] = prog_recv(ev[2], 1 - c, a, cfg["tidy"])
            obs["st"] = self.subroutine(g, obs["prog"])
        elif kind in ("resp", "early"):
            ex = self.ctls[c].executor
            resp = self.response_for(g)
            obs["response"] = list(resp[1:-1])
            try:
                ex._handle_epr_response(resp)
            except Exception as exc:
                _guard(exc)
                obs["api_error"] = f"{type(exc).__name__}: {str(exc).splitlines()[0][:160] if str(exc) else ''}"
            obs["st"] = ("done",)
            self._poll_after(c, g, obs)
        else:
            raise KeyError(kind)
        return obs

    def tidy(self, g: int, obs=None) -> None:
        if self.cfg["tidy"]:
            st = self.subroutine(g, TIDY_Q)
            if st[0] != "done":
                raise AssertionError(f"scratch normalisation `set Q0 0` did not complete: {st[:4]!r}")

    def _poll_after(self, c: int, actor: Optional[int], obs) -> None:
        """After a delivery/retry the subroutines whose response was (expected to be) consumed look at their wait again."""
        for g in sorted(self.live):
            if self.cfg["agents"][g][0] != c:
                continue
            if g in obs["exp"]["handled"]:
                obs["polls"][g] = self.poll(g)


def build(cfg, history) -> World:
    w = World(cfg)
    for ev in history:
        w.apply(ev)
    return w


# ----------------------------------------------------------------------------- observation / canonical state
def _regs(groups) -> Dict[str, int]:
    out = {}
    for name, grp in groups.items():
        for idx, v in simctl.register_items(grp):
            if v is not None:
                out[f"{name.name}{idx}"] = v
    return dict(sorted(out.items()))


def _arrays(arrs) -> Dict[str, list]:
    return {str(a): list(v) for a, v in sorted(arrs._arrays.items())}


def _mem(sh) -> Dict[str, Any]:
    return {"regs": _regs(sh._registers), "arrays": _arrays(sh._arrays)}


def app_ids_of(ctl) -> List[int]:
    from netqasm.sdk.shared_memory import SharedMemoryManager
    ex = ctl.executor
    ids = set(ex._registers) | set(ex._app_arrays) | set(ex._shared_memories) | set(ex._qubit_unit_modules)
    ids |= set(ctl._active_app_ids)
    ids |= {k[1] for k, v in SharedMemoryManager._MEMORIES.items() if k[0] == ctl.name and v is not None}
    return sorted(ids)


def snap_app(ctl, a: int) -> Dict[str, Any]:
    from netqasm.sdk.shared_memory import SharedMemoryManager
    ex = ctl.executor
    sh = ex._shared_memories.get(a)
    mg = SharedMemoryManager.get_shared_memory(ctl.name, key=a)
    return {
        "regs": _regs(ex._registers[a]) if a in ex._registers else None,
        "arrays": _arrays(ex._app_arrays[a]) if a in ex._app_arrays else None,
        "shared": _mem(sh) if sh is not None else None,
        "mgr": None if mg is None else dict(_mem(mg), same_object_as_executor=(mg is sh)),
        "um": list(ex._qubit_unit_modules[a]) if a in ex._qubit_unit_modules else None,
        "active": a in ctl._active_app_ids,
    }


def _queues(ex, q) -> Dict[str, list]:
    out = {}
    for k, lst in q.items():
        if not lst:
            continue
        rows = []
        for d in lst:
            sub = ex._subroutines.get(d.subroutine_id)
            rows.append([None if sub is None else sub.app_id, d.ent_results_array_address, d.q_array_address,
                         d.tot_pairs, d.pairs_left])
        out[f"{k[0]}/{k[1]}"] = rows
    return dict(sorted(out.items()))


def _resp(r) -> list:
    return [x.name if hasattr(x, "name") and hasattr(x, "value") else x for x in r]


def snap_world(w: World) -> Dict[str, Any]:
    out = []
    for ci, ctl in enumerate(w.ctls):
        ex = ctl.executor
        live = []
        for g, (_gen, sid) in sorted(w.live.items()):
            if w.cfg["agents"][g][0] != ci:
                continue
            sub = ex._subroutines.get(sid)
            live.append([None if sub is None else sub.app_id, ex._program_counters.get(sid)])
        out.append({
            "apps": {str(a): snap_app(ctl, a) for a in app_ids_of(ctl)},
            "used": sorted(ex._used_physical_qubit_addresses),
            "recv_q": _queues(ex, ex._epr_recv_requests),
            "create_q": _queues(ex, ex._epr_create_requests),
            "pending": [_resp(r) for r in ex._pending_epr_responses],
            "live": sorted(live, key=repr),
            "qubits": [[p, round(ex.qs.probabilities(p)[1], 6)] for p in sorted(ex.qs.order)],
        })
    return {"ctl": out}


def key_of(w: World, snap=None) -> str:
    snap = snap or snap_world(w)
    return json.dumps({"impl": snap, "model": w.model}, sort_keys=True)


# ----------------------------------------------------------------------------- invariants
def global_invariants(w: World, snap) -> List[Tuple[str, str, Any]]:
    """(class, text, detail) for injectivity and used == mapped, per controller."""
    out = []
    for ci, cs in enumerate(snap["ctl"]):
        owner: Dict[int, list] = {}
        for a, s in cs["apps"].items():
            for v, p in enumerate(s["um"] or []):
                if p is not None:
                    owner.setdefault(p, []).append([int(a), v])
        shared = {p: o for p, o in owner.items() if len(o) > 1}
        if shared:
            out.append(("shared", f"physical qubit(s) mapped by more than one allocated virtual qubit on {NODES[ci]}",
                        {"physical -> [(app, virtual)]": shared, "unit_modules": {a: s["um"] for a, s in cs["apps"].items()},
                         "used": cs["used"]}))
        mapped = set(owner)
        used = set(cs["used"])
        queued = {r[2] for r in cs["pending"] if r[0] == "OK_K"}
        if mapped - used:
            out.append(("mapped-not-used", f"mapped physical qubit(s) not marked in use on {NODES[ci]}",
                        {"mapped": sorted(mapped), "used": sorted(used)}))
        if mapped & queued:
            out.append(("queued-response-qubit-handed-out", f"a physical qubit that holds the pair of a still queued keep-response is "
                        f"mapped by a virtual qubit on {NODES[ci]}", {"mapped": sorted(mapped), "queued_responses": sorted(queued)}))
        if used - mapped - queued:
            out.append(("used-not-mapped", f"physical qubit(s) marked in use but mapped by no virtual qubit on {NODES[ci]}",
                        {"mapped": sorted(mapped), "used": sorted(used), "queued_responses": sorted(queued)}))
    return out


def leftovers(ctl, a: int) -> List[str]:
    from netqasm.sdk.shared_memory import SharedMemoryManager
    ex = ctl.executor
    out = []
    for nm in ("_registers", "_app_arrays", "_shared_memories", "_qubit_unit_modules"):
        if a in getattr(ex, nm):
            out.append(nm)
    if a in ctl._active_app_ids:
        out.append("_active_app_ids")
    if SharedMemoryManager._MEMORIES.get((ctl.name, a)) is not None:
        out.append("SharedMemoryManager")
    return out


CLEAN = {"regs": {}, "arrays": {}, "shared": {"regs": {}, "arrays": {}},
         "mgr": {"regs": {}, "arrays": {}, "same_object_as_executor": True}, "active": True}


def _diff_apps(before, after, skip: set) -> List[Tuple[str, str, str, Any]]:
    """(controller/app, field, text, detail) for every app outside `skip` whose observable state changed."""
    out = []
    for ci, (cb, ca) in enumerate(zip(before["ctl"], after["ctl"])):
        for a in sorted(set(cb["apps"]) | set(ca["apps"])):
            if (ci, int(a)) in skip:
                continue
            sb, sa = cb["apps"].get(a), ca["apps"].get(a)
            if sb == sa:
                continue
            fields = [k for k in MEM_KEYS if (sb or {}).get(k) != (sa or {}).get(k)]
            out.append((f"{NODES[ci]}/{a}", "+".join(fields), f"state of app {a} on {NODES[ci]} changed",
                        {"before": {k: (sb or {}).get(k) for k in fields}, "after": {k: (sa or {}).get(k) for k in fields}}))
    return out


def check_transition(cfg, history, ev, part, before=None) -> Tuple[Optional[str], Dict[str, Any]]:
    """Replays `history`, executes `ev`, evaluates every invariant.  Returns (canonical key of the successor or None if the
    successor must not be expanded, observation)."""
    w = build(cfg, history)
    if before is None:
        before = snap_world(w)
    obs = w.apply(ev)
    after = snap_world(w)
    kind = ev[0]
    exp = obs["exp"]
    st = obs["st"]
    case = {"config": cfg, "history": history, "event": ev}
    viol: List[Tuple[str, str, Any]] = []
    count(part, f"event/{kind}")

    agents = cfg["agents"]
    actor = None if kind == "retry" else tuple(agents[ev[1]])
    may_change = {tuple(agents[g]) for g in exp["handled"]}
    if actor is not None:
        may_change.add(actor)

    # ---- (1) injectivity, (2) used == mapped ------------------------------------------------------------------------
    for cls, text, detail in global_invariants(w, after):
        if cls == "shared":
            # a response that had been queued (deferred) is consumed by this event
            deferred_involved = (kind == "retry" and exp["handled"]) or (kind in ("resp", "early") and any(g != ev[1] for g in exp["handled"]))
            fp = "physical-qubit-shared/" + ("deferred-keep-response" if deferred_involved else kind)
        else:
            fp = f"{cls}/{kind}"
        viol.append((fp, text, detail))

    # ---- (3) isolation ------------------------------------------------------------------------------------------------
    for where, fields, text, detail in _diff_apps(before, after, may_change):
        viol.append((f"isolation/{kind}/{fields}", f"an event of {'the link layer' if actor is None else 'app %d on %s' % (actor[1], NODES[actor[0]])} "
                     f"changed another application: {text}", dict(detail, other=where)))

    # ---- outcome against the model ------------------------------------------------------------------------------------
    got = st[0]
    if obs["api_error"]:
        viol.append((f"response-handling-raises/{kind}", "delivering / re-examining a keep-response raised", obs["api_error"]))
    if kind in ("qalloc", "qfree", "gate", "cw", "recv"):
        want = {"done": "done", "fault": "fault", "suspended": "susp"}[exp["outcome"]]
        count(part, f"outcome/{kind}/{got}")
        if got != want:
            viol.append((f"outcome/{kind}/expected-{want}-got-{got}",
                         f"{kind}: the subroutine should end as '{want}' but ended as '{got}'", {"status": st[:4]}))
        elif got == "fault":
            # (4) a faulting event changes nothing except what the instructions before the faulting one define
            w2 = build(cfg, history)
            st2 = w2.subroutine(ev[1], obs["prog"][:exp["line"]])
            if kind in ("qalloc", "qfree", "gate"):
                w2.tidy(ev[1])
            # keep the reference model of the replica in step (only defined-ness flags, identical by construction)
            w2.model = w.model
            ref = snap_world(w2)
            if st2[0] != "done":
                viol.append((f"fault-prefix/{kind}", "the instructions before the faulting one fault when run alone", {"status": st2[:4]}))
            elif ref != after:
                viol.append((f"fault-changes-state/{kind}", "state after a faulting subroutine differs from the state after "
                             "running only the instructions before the faulting one",
                             {"fault": st[1:4], "diff": _snap_diff(ref, after)}))
    if kind == "gate" and got == "done" and exp["outcome"] == "done":
        c, a = actor
        p = (after["ctl"][c]["apps"].get(str(a)) or {}).get("um") or []
        want_ones = [p[ev[2]]] if ev[2] < len(p) and p[ev[2]] is not None else []
        if obs.get("gate_ones") != want_ones:
            viol.append(("gate-wrong-qubit", "a gate of one application flipped other physical qubits than its own",
                         {"flipped": obs.get("gate_ones"), "expected": want_ones}))
    for g, pst in obs["polls"].items():
        count(part, f"resume/{pst[0]}")
        if pst[0] != "done":
            viol.append((f"outcome/resume-after-{kind}/{pst[0]}", "a recv_epr subroutine did not complete after its "
                         "keep-response was consumed", {"agent": agents[g], "status": pst[:4]}))
    if kind == "resp":
        count(part, "resp/deferred" if exp["deferred"] else "resp/handled-at-once")
        if len(exp["handled"]) > (0 if exp["deferred"] else 1):
            count(part, "resp/also-consumes-queued")
    if kind == "retry":
        count(part, "retry/consumes" if exp["handled"] else "retry/nothing-ready")
        if exp["handled"] and any(e[0] == "early" and e[1] in exp["handled"] for e in history):
            count(part, "retry/consumes-early-response")

    # ---- allocation and queue state against the model -----------------------------------------------------------------
    if kind != "init" or exp["outcome"] != "reject-or-harmless":
        for g, ag in enumerate(w.model):
            c, a = agents[g]
            s = after["ctl"][c]["apps"].get(str(a))
            um = (s or {}).get("um")
            alloc = None if um is None else [v for v, p in enumerate(um) if p is not None]
            want_alloc = ag["alloc"] if ag["reg"] else None
            if alloc != want_alloc or (um is not None and len(um) != ag["m"]):
                viol.append((f"allocation/{kind}", "allocated virtual qubits differ from the history's allocations and frees",
                             {"agent": agents[g], "unit_module": um, "expected_allocated": want_alloc, "expected_size": ag["m"]}))
            n_pending = sum(1 for r in after["ctl"][c]["pending"] if r[5] == a)
            if n_pending != (1 if (ag["delivered"] or ag["early"]) else 0) or ((g in w.live) != (ag["inflight"] is not None)):
                viol.append((f"request-state/{kind}", "queued responses / in-flight subroutine differ from the history",
                             {"agent": agents[g], "pending": after["ctl"][c]["pending"], "in_flight": g in w.live,
                              "expected": {"queued": ag["delivered"] or ag["early"], "in_flight": ag["inflight"] is not None}}))

    # ---- lifecycle ------------------------------------------------------------------------------------------------------
    if kind == "stop":
        c, a = actor
        held = [p for p in (before["ctl"][c]["apps"].get(str(a)) or {}).get("um") or [] if p is not None]
        count(part, "stop/with-qubits" if held else "stop/without-qubits")
        if got != "done":
            viol.append(("stop-faults", "StopAppMessage of a registered, idle application raised", {"status": st[:4]}))
        for loc in leftovers(w.ctls[c], a):
            viol.append((f"stop-leaves/{loc}", f"after stop(app) the application id is still present in {loc}",
                         {"app": a, "node": NODES[c]}))
        still = sorted(set(held) & set(after["ctl"][c]["used"]))
        if still:
            viol.append(("stop-keeps-qubits", "physical qubits of a stopped application are still marked in use",
                         {"held": held, "used_after": after["ctl"][c]["used"]}))
    if kind == "init":
        c, a = actor
        s = after["ctl"][c]["apps"].get(str(a))
        if exp["outcome"] == "done":
            again = any(e[0] == "stop" and e[1] == ev[1] for e in history)
            count(part, "init/after-stop" if again else "init/first")
            if got != "done":
                viol.append(("reregister-rejected" if again else "register-rejected",
                             "InitNewAppMessage for an app id that is not registered "
                             + ("(it was stopped before) " if again else "") + "raised", {"status": st[:4]}))
            else:
                bad = [k for k, v in CLEAN.items() if (s or {}).get(k) != v]
                if (s or {}).get("um") != [None] * ev[2]:
                    bad.append("um")
                if bad:
                    viol.append((f"init-not-clean/{'+'.join(bad)}", "a freshly registered application does not start with "
                                 "all-undefined registers, no arrays, an empty shared memory and an empty unit module",
                                 {k: (s or {}).get(k) for k in bad}))
                elif again:
                    count(part, "init/after-stop/clean")
        else:
            count(part, "reinit/attempt")
            count(part, f"reinit/{got}")
            sb = before["ctl"][c]["apps"].get(str(a))
            if s != sb or after["ctl"][c]["used"] != before["ctl"][c]["used"]:
                fields = [k for k in MEM_KEYS if (sb or {}).get(k) != (s or {}).get(k)]
                harmless = False
                if got == "done":
                    # 'harmless' alternative: equivalent to stop + init (old qubits released, clean state)
                    held = [p for p in (sb or {}).get("um") or [] if p is not None]
                    harmless = (all((s or {}).get(k) == v for k, v in CLEAN.items()) and (s or {}).get("um") == [None] * ev[2]
                                and not (set(held) & set(after["ctl"][c]["used"])) and ev[1] not in w.live)
                if not (harmless and obs.get("reinit_reset")):
                    # the leaked physical qubits (used but no longer mapped) are a consequence: report the one cause
                    viol[:] = [x for x in viol if not x[0].startswith(("used-not-mapped/", "allocation/", "request-state/"))]
                    viol.append(("reinit-live-app/" + ("rejected-but-state-changed" if got == "fault" else "state-changed"),
                                 "InitNewAppMessage for an app id that is already registered "
                                 + ("raised, but only after it had replaced" if got == "fault" else "replaced")
                                 + " the application's " + ", ".join(fields or ["used set"]),
                                 {"status": st[:4], "before": {k: (sb or {}).get(k) for k in fields},
                                  "after": {k: (s or {}).get(k) for k in fields}, "used_before": before["ctl"][c]["used"],
                                  "used_after": after["ctl"][c]["used"]}))

    # ---- report ---------------------------------------------------------------------------------------------------------------
    seen_fp = set()
    for fp, text, detail in viol:
        if fp in seen_fp:
            continue
        seen_fp.add(fp)
        add_violation(part, fp, text, case, detail)
    hard = [fp for fp in seen_fp if fp not in SOFT]
    obs["violations"] = sorted(seen_fp)
    if hard:
        return None, obs
    return key_of(w, after), obs


def _snap_diff(a, b, path="") -> List[str]:
    if type(a) != type(b):
        return [f"{path}: {a!r} != {b!r}"]
    if isinstance(a, dict):
        out = []
        for k in sorted(set(a) | set(b)):
            if a.get(k) != b.get(k):
                out += _snap_diff(a.get(k), b.get(k), f"{path}/{k}")
        return out[:12]
    if isinstance(a, list) and len(a) == len(b):
        out = []
        for i, (x, y) in enumerate(zip(a, b)):
            if x != y:
                out += _snap_diff(x, y, f"{path}[{i}]")
        return out[:12]
    return [] if a == b else [f"{path}: {a!r} != {b!r}"]


# ----------------------------------------------------------------------------- BFS
def expand(shard):
    cfg, batch = shard
    part = new_part()
    succ = []
    first = True
    for history in batch:
        w0 = build(cfg, history)
        before = snap_world(w0)
        evs = model_enabled(cfg, w0.model)
        for ev in evs:
            part["evals"] += 1
            part["transitions"] += 1
            key, obs = check_transition(cfg, history, ev, part, before)
            if first:
                # determinism gate: the same transition from a fresh world gives the same observation
                first = False
                scratch = new_part()
                key2, _ = check_transition(cfg, history, ev, scratch, None)
                if key2 != key:
                    raise AssertionError(f"non-deterministic transition {history!r} + {ev!r}")
            if key is not None:
                succ.append((key, list(history) + [ev]))
    part["_succ"] = succ
    return part


def bfs(ctx, cfg) -> Dict[str, Any]:
    root = build(cfg, [])
    seen = {key_of(root)}
    frontier: List[list] = [[]]
    states, d = 1, 0
    transitions = 0
    capped = False
    while frontier and d < cfg["depth"]:
        batch = max(1, len(frontier) // (ctx.jobs * 4) + 1)
        shards = [(cfg, frontier[i:i + batch]) for i in range(0, len(frontier), batch)]
        results = ctx.pmap(expand, shards)
        nxt = []
        for r in results:
            transitions += r["transitions"]
            for k, h in r.pop("_succ"):
                if k not in seen:
                    seen.add(k)
                    nxt.append(h)
        states += len(nxt)
        d += 1
        frontier = nxt
        if len(seen) > cfg["max_states"]:
            capped = True
            ctx.total["caps"].append(f"{cfg['name']}: stopped after depth {d}, more than {cfg['max_states']} states")
            break
    ctx.total["states"] += states
    ctx.total["distinct"] += states
    closed = not frontier
    if frontier:
        ctx.total["samples"].append({"config": cfg["name"], "deepest_history": frontier[0]})
    return {"config": cfg["name"], "agents": cfg["agents"], "unit_module_sizes": cfg["sizes"], "classical_menu": cfg["classical"],
            "states": states, "transitions": transitions, "depth_completed": d, "depth_bound": cfg["depth"],
            "graph_closed": closed, "frontier_left": len(frontier), "state_cap_hit": capped}


def run(ctx):
    rows = []
    for cfg in CONFIGS[ctx.tier]:
        rows.append(bfs(ctx, cfg))
        r = rows[-1]
        print(f"  {r['config']}: states={r['states']} transitions={r['transitions']} depth_completed={r['depth_completed']}"
              f"/{r['depth_bound']} frontier_emptied={r['graph_closed']} frontier_left={r['frontier_left']}", flush=True)
    ctx.extra["bfs"] = rows
    ctx.extra["bfs_all_closed"] = all(r["graph_closed"] for r in rows)
    # exhaustive inside the stated depth bounds; open frontiers are listed per configuration in coverage.bfs
    s = new_part()
    add_sample(s, {"config": CONFIGS[ctx.tier][0]["name"],
                   "history": [["init", 0, 2], ["qalloc", 0, 0], ["recv", 0, 0], ["resp", 0], ["qfree", 0, 0], ["retry", 0]]})
    ctx.merge(s)
    for kind in ("init", "stop", "qalloc", "qfree", "gate", "cw", "recv", "resp", "retry", "early"):
        ctx.require(f"event/{kind}", 1)
    ctx.require("retry/consumes-early-response", 1)
    for name in ("outcome/qalloc/done", "outcome/qalloc/fault", "outcome/qfree/done", "outcome/qfree/fault",
                 "outcome/gate/done", "outcome/gate/fault", "outcome/cw/done", "outcome/cw/fault", "outcome/recv/susp",
                 "resp/deferred", "resp/handled-at-once", "retry/consumes", "resume/done", "stop/with-qubits",
                 "stop/without-qubits", "init/first", "init/after-stop", "reinit/attempt"):
        ctx.require(name, 1)


def replay(case, part):
    cfg = case["config"]
    history = [list(e) for e in case["history"]]
    check_transition(cfg, history, list(case["event"]), part, None)
