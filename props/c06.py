"""C06 — pre-compiled templated subroutines equal direct compilation.

Every history of 1..3 segments (bodies from a menu with template operands in rotation
angles), each closed either by flush() or by compile() -> instantiate(app_id, {T: v}) ->
commit_subroutine(), followed by the connection's closing flush, for every template value
and with/without the NV transpiler, is run on the real SDK + controller and compared with
the same history written with literal values and plain flushes.
"""
from __future__ import annotations

import itertools
from typing import Any, Dict, List, Tuple

from mc import choices, simctl, world
from mc.report import guard_harness as _guard
from mc.report import add_sample, add_violation, count, new_part

LEVEL = "exploration"
RULE = ("histories of 1..3 segments over 7 segment bodies (template in rot_X/Y/Z numerators with denominators 0/1/4, one and two "
        "templates, measurement into new future / register / existing array slot, rotation of a persistent qubit) x closing mode "
        "per segment {flush, compile+instantiate+commit, compile now and commit later in order} (at least one pre-compiled) x template values {0,1,8,16,31,255} x "
        "{no transpiler, NV transpiler} x all measurement-outcome scripts; oracle: identical observations to the literal+flush "
        "history after every segment and after the closing flush; distinct = distinct (history, modes, value, compiler, "
        "outcomes); all non-trivial")
ASSUMPTIONS = ["usage as in examples/sdk_scripts/rsp.py: compile(), instantiate(app_id, arguments), commit_subroutine()",
               "simulation mode of the NV transpiler (hardware angle normalisation cannot see template values)"]

VALUES = [0, 1, 8, 16, 31, 255]
BODIES = ["rx_new", "rz_reg", "ry_slot", "p_rot", "lit_new", "two_tpl", "rx_new_d0"]


def build_body(name: str, env, tval):
    """Adds the SDK operations of one segment body.  tval(name) gives either a Template or a literal."""
    from netqasm.sdk.qubit import Qubit
    conn = env["conn"]
    if name == "rx_new":
        q = Qubit(conn)
        q.rot_X(n=tval("t"), d=1)
        env["handles"].append(("future", q.measure()))
    elif name == "rx_new_d0":
        q = Qubit(conn)
        q.rot_X(n=tval("t"), d=0)
        env["handles"].append(("future", q.measure()))
    elif name == "rz_reg":
        q = Qubit(conn)
        q.H()
        q.rot_Z(n=tval("t"), d=4)
        q.H()
        env["handles"].append(("reg", q.measure(store_array=False), env["segment"]))
    elif name == "ry_slot":
        q = Qubit(conn)
        q.rot_Y(n=tval("t"), d=0)
        q.measure(future=env["A0"].get_future_index(0))
    elif name == "p_rot":
        env["P"].rot_X(n=tval("t"), d=4)
    elif name == "lit_new":
        q = Qubit(conn)
        q.rot_X(n=16, d=4)
        env["handles"].append(("future", q.measure()))
    elif name == "two_tpl":
        q = Qubit(conn)
        q.rot_X(n=tval("t"), d=1)
        q.rot_Z(n=tval("u"), d=2)
        q.rot_X(n=tval("t"), d=4)
        env["handles"].append(("future", q.measure()))
    else:
        raise AssertionError(name)


def array_traffic(env) -> List[Any]:
    """Per subroutine message sent so far: which arrays it declares and which it returns (read from the wire bytes).  A flush and a
    compile/commit must leave the connection in the same state, so every later message declares and returns the same arrays."""
    from netqasm.backend.messages import SubroutineMessage, deserialize_host_msg
    from netqasm.lang.parsing import deserialize as deserialize_subroutine
    out = []
    for raw in env["conn"].sent:
        msg = deserialize_host_msg(raw)
        if not isinstance(msg, SubroutineMessage):
            continue
        sub = deserialize_subroutine(msg.subroutine, flavour=env.get("flavour"))
        decl, ret = [], []
        for ins in sub.instructions:
            if ins.mnemonic == "array":
                decl.append(ins.address.address)
            elif ins.mnemonic == "ret_arr":
                ret.append(ins.address.address)
        out.append((decl, ret))
    return out


def observe(env) -> Dict[str, Any]:
    ctrl, conn = env["ctrl"], env["conn"]
    ex = ctrl.executor
    arrays = {a: list(v) for a, v in ex._app_arrays[conn.app_id]._arrays.items()}
    hv = []
    for h in env["handles"]:
        if h[0] == "future":
            try:
                hv.append(("future", h[1]._address, h[1].value))
            except Exception as exc:
                _guard(exc)
                hv.append(("future", h[1]._address, f"raised {type(exc).__name__}"))
        else:
            if h[2] == env["segment"]:
                hv.append(("reg", str(h[1].reg), h[1].value))
    try:
        a0 = list(env["A0"][0:2])
    except Exception as exc:
        _guard(exc)
        a0 = f"raised {type(exc).__name__}"
    mm = conn.builder._mem_mgr
    return {"gates": list(ex.gate_trace), "arrays": arrays, "handles": hv, "A0": a0, "array-traffic": array_traffic(env),
            "bookkeeping": {"arrays_to_return": len(mm._arrays_to_return), "registers_to_return": len(mm._registers_to_return),
                            "meas_used": len(simctl.meas_registers_in_use(mm)),
                            "active_registers": len(mm._active_registers), "pending": len(conn.builder._pending_commands)}}


def run_history(history, modes, value, nv: bool, templated: bool, chooser) -> List[Any]:
    from netqasm.lang.instr.flavour import NVFlavour
    from netqasm.lang.operand import Template
    from netqasm.sdk.qubit import Qubit
    from netqasm.sdk.transpile import NVSubroutineTranspiler
    world.reset()
    kwargs = {}
    if nv:
        kwargs["compiler"] = NVSubroutineTranspiler
    ctrl, conn = simctl.make_pair("alice", flavour=NVFlavour() if nv else None, **kwargs)
    ctrl.executor.chooser = chooser.outcome
    env = {"conn": conn, "ctrl": ctrl, "handles": [], "segment": -1, "flavour": NVFlavour() if nv else None}
    obs: List[Any] = []
    try:
        env["A0"] = conn.new_array(2, init_values=[5, 6])
        env["P"] = Qubit(conn)
        conn.flush()
        late: List[Any] = []      # compiled but not yet committed subroutines (committed in order at the next sync point)

        def commit_late():
            while late:
                sub = late.pop(0)
                sub.instantiate(conn.app_id, {"t": value, "u": (value * 3 + 1) % 256})
                conn.commit_subroutine(sub)

        held = None               # "precompile-queue": compiled, to be committed while the NEXT segment's operations are pending

        def commit_held():
            nonlocal held
            if held is not None:
                held.instantiate(conn.app_id, {"t": value, "u": (value * 3 + 1) % 256})
                conn.commit_subroutine(held)
                held = None

        for si, (body, mode) in enumerate(zip(history, modes)):
            env["segment"] = si
            if templated and mode == "precompile-queue":
                commit_held()
                build_body(body, env, lambda n: Template(n))
                held = conn.compile()
                obs.append(None)
                continue
            if held is not None and not (templated and mode in ("precompile", "precompile-late")):
                # the next segment is queued (not compiled) while the compiled one is instantiated and committed
                commit_late()
                build_body(body, env, lambda n: value if n == "t" else (value * 3 + 1) % 256)
                commit_held()
                conn.flush()
                obs.append(observe(env) if not late else None)
                continue
            commit_held()
            if templated and mode in ("precompile", "precompile-late"):
                build_body(body, env, lambda n: Template(n))
                sub = conn.compile()
                if sub is not None:
                    if mode == "precompile-late":
                        late.append(sub)
                    else:
                        commit_late()
                        sub.instantiate(conn.app_id, {"t": value, "u": (value * 3 + 1) % 256})
                        conn.commit_subroutine(sub)
            else:
                commit_late()
                build_body(body, env, lambda n: value if n == "t" else (value * 3 + 1) % 256)
                conn.flush()
            # observations are comparable only when everything built so far has been executed
            obs.append(observe(env) if not late else None)
        commit_held()
        commit_late()
        env["segment"] = len(history)
        conn.flush()          # the closing flush of conn.close(), observed before the application is stopped
        o = observe(env)
        o.pop("bookkeeping")
        obs.append(o)
        conn.close()
    except simctl.Horizon:
        obs.append("horizon")
    except Exception as exc:
        _guard(exc)
        obs.append(f"raised {type(exc).__name__}: {str(exc).splitlines()[0][:160] if str(exc) else ''}")
    return obs


def check_history(history, modes, value, nv, part) -> None:
    case = {"segments": list(history), "modes": list(modes), "template_value": value, "nv_transpiler": nv}

    def one(ch):
        return run_history(history, modes, value, nv, True, ch)
    for chosen, obs_t in choices.explore(one, max_runs=512):
        part["evals"] += 1
        part["distinct"] += 1
        # measurement outcomes actually taken, to script the reference run
        outcomes = _outcomes(obs_t)
        script = choices.Script(outcomes) if outcomes is not None else choices.Chooser(chosen)
        obs_l = run_history(history, ["flush"] * len(history), value, nv, False, script)
        c = dict(case, choices=chosen)
        if all(a is None or a == b for a, b in zip(obs_t, obs_l)) and len(obs_t) == len(obs_l):
            count(part, "agree")
            continue
        # locate the first difference
        for si, (a, b) in enumerate(zip(obs_t, obs_l)):
            if a is None:
                continue
            if a != b:
                where = f"segment {si}" if si < len(history) else "closing flush"
                if isinstance(a, str) or isinstance(b, str):
                    add_violation(part, f"outcome/{'close' if si >= len(history) else modes[si]}", f"{where}: templated history gives "
                                  f"{a if isinstance(a, str) else 'ok'}, literal history {b if isinstance(b, str) else 'ok'}", c)
                    break
                keys = [k for k in a if a[k] != b.get(k)]
                kind = keys[0]
                stage = "close" if si >= len(history) else ("after-" + modes[si])
                add_violation(part, f"{kind}/{stage}", f"{where}: {kind} differ between the pre-compiled history and the same history "
                              f"flushed with literal values", c, {"templated": a[kind], "literal": b.get(kind)})
                break
        else:
            add_violation(part, "length", "different number of observations", c)


def _outcomes(obs):
    """all measurement outcomes in order are not directly in the observation; recover from controller meas via gates is not
    possible, so the reference run simply replays the same choice prefix."""
    return None


def shard(sh):
    _, idx, nv, tier = sh
    part = new_part()
    cases = list(histories(tier))
    for history, modes in cases[idx::48]:
        for v in VALUES:
            check_history(history, modes, v, nv, part)
        count(part, f"len/{len(history)}")
        for m in modes:
            count(part, f"mode/{m}")
        for b in history:
            count(part, f"body/{b}")
    if idx == 0:
        add_sample(part, {"segments": cases[0][0], "modes": cases[0][1], "template_value": 8, "nv_transpiler": nv})
    return part


def histories(tier: str):
    lens = (1, 2) if tier == "quick" else (1, 2, 3)
    for n in lens:
        bodies = BODIES if n < 3 else BODIES[:5]
        for hist in itertools.product(bodies, repeat=n):
            for modes in itertools.product(("flush", "precompile", "precompile-late"), repeat=n):
                if all(m == "flush" for m in modes):
                    continue
                yield list(hist), list(modes)
            if n == 2:
                # compiled first, committed while the second segment's operations are still queued
                yield list(hist), ["precompile-queue", "flush"]
    if tier == "quick":
        # a few length-3 histories (array created early, pre-compiled middle, flushed end)
        for hist in (("rx_new", "ry_slot", "lit_new"), ("ry_slot", "rz_reg", "rx_new"), ("p_rot", "two_tpl", "ry_slot")):
            for modes in (("precompile", "flush", "flush"), ("flush", "precompile", "flush"), ("precompile", "precompile", "precompile"),
                          ("precompile-late", "precompile-late", "flush"), ("precompile-late", "flush", "precompile-late"),
                          ("precompile-late", "precompile-late", "precompile-late")):
                yield list(hist), list(modes)


def run(ctx):
    shards = [("s", i, nv, ctx.tier) for i in range(48) for nv in (False, True)]
    ctx.pmap(shard, shards)
    for b in BODIES:
        ctx.require(f"body/{b}", 1)
    ctx.require("mode/precompile", 10)
    ctx.require("mode/precompile-late", 10)
    ctx.require("mode/flush", 10)
    ctx.require("agree", 100)


def replay(case, part):
    check_history(case["segments"], case["modes"], case["template_value"], case["nv_transpiler"], part)
