"""C10 — entanglement looks like Phi+ whatever Bell state the link delivered.

Deciding step: exhaustive enumeration of pair count x ALL Bell-state tuples x API variant x
hardware x other live qubits x expect_phi_plus (keep types, through the real SDK -> controller
pipeline with a link model that puts real Bell pairs into the state vector), and of basis x
Bell state x raw outcome pair for measure-directly results (exact joint distributions).
"""
from __future__ import annotations

import itertools
import math
from typing import Any, Dict, List, Optional, Tuple

import numpy as np

from mc import choices, netstack, qsim, simctl, world
from mc.report import guard_harness as _guard
from mc.report import add_sample, add_violation, count, new_part

LEVEL = "exploration"
RULE = ("keep types: n in 1..3 (thorough 4) x all 4^n Bell tuples x variant {recv_keep, recv_keep_with_info, recv_keep sequential+"
        "post routine (Z and X measurement), recv_rsp, recv_rsp_with_info, create_keep, create_keep_with_info} x hardware {generic, "
        "NV config, NV config + transpiler} x 0..2 other live qubits x expect_phi_plus x response format {native, qlink 1.0}; "
        "oracle: reduced state of (local_i, remote_i) is exactly Phi+ (or the delivered state when no correction is due), other "
        "qubits untouched; measure types: 6 named bases x 4 Bell states x raw outcome pairs: joint distribution of (post-processed "
        "receiver outcome, creator outcome) equals the Phi+ distribution; distinct = distinct parameter tuples; non-trivial = tuple "
        "containing a non-Phi+ state")
ASSUMPTIONS = ["the link layer reports the Bell state b of pair i and the state of (local_i, remote_i) is b (Bell states named, numbered "
               "by the response format's own enum)",
               "the receiver of a measure-directly request cannot name a basis through the API; the six bases are exercised on "
               "EprMeasureResult objects built as the repository's own test builds them, the pipeline with the Z basis",
               "recv_context is not among the variants the property lists (it applies no corrections by design)"]

BELLS = netstack.BELL_NAMES       # PHI_PLUS, PSI_PLUS, PSI_MINUS, PHI_MINUS
HW = ["generic", "nv", "nv+transpiler"]
RECV_VARIANTS = ["recv_keep", "recv_keep_with_info", "recv_rsp", "recv_rsp_with_info", "recv_keep:post", "recv_keep:seq1"]
CREATE_VARIANTS = ["create_keep", "create_keep_with_info"]
OTHER_STATE = [(3, 3), (5, 3)]      # rot_X(n, d) preparations of the unrelated live qubits


def make_world(hw: str, fmt: str, bells: Tuple[str, ...]):
    from netqasm.lang.instr.flavour import NVFlavour
    from netqasm.sdk.build_types import GenericHardwareConfig, NVHardwareConfig
    from netqasm.sdk.epr_socket import EPRSocket
    from netqasm.sdk.transpile import NVSubroutineTranspiler
    world.reset()
    epr = EPRSocket("bob")
    kwargs: Dict[str, Any] = {"epr_sockets": [epr]}
    flavour = None
    if hw == "generic":
        kwargs["hardware_config"] = GenericHardwareConfig(6)
    else:
        kwargs["hardware_config"] = NVHardwareConfig(6)
        if hw == "nv+transpiler":
            kwargs["compiler"] = NVSubroutineTranspiler
            flavour = NVFlavour()
    ctrl, conn = simctl.make_pair("alice", flavour=flavour, horizon=30000, max_qubits=6, **kwargs)
    link = netstack.AutoLink(ctrl, bell_of=lambda r, p: bells[p], response_format=fmt)
    return ctrl, conn, epr, link


def phys_of(ctrl, conn, q) -> Optional[int]:
    um = ctrl.executor._qubit_unit_modules[conn.app_id]
    return um[q.qubit_id] if 0 <= q.qubit_id < len(um) else None


def check_keep(variant: str, hw: str, n: int, bells: Tuple[str, ...], others: int, expect: bool, fmt: str, part) -> None:
    from netqasm.sdk.qubit import Qubit
    case = {"variant": variant, "hardware": hw, "number": n, "bell_states": list(bells), "other_live_qubits": others,
            "expect_phi_plus": expect, "response_format": fmt}
    ctrl, conn, epr, link = make_world(hw, fmt, bells)
    recv = variant.startswith("recv")
    try:
        extra = []
        for k in range(others):
            q = Qubit(conn)
            q.rot_X(n=OTHER_STATE[k][0], d=OTHER_STATE[k][1])
            extra.append(q)
        kw = {"number": n}
        if recv:
            kw["expect_phi_plus"] = expect
        api = variant
        if variant == "recv_keep:post":
            # non-sequential request with a post routine: pairs are handled one by one, each keeps its own virtual qubit
            api = "recv_keep"
            kw["post_routine"] = lambda c, q, pair: q.rot_Z(n=0, d=0)
            kw["sequential"] = False
        if variant == "recv_keep:seq1":
            # sequential=True for a single pair without a post routine (accepted by the argument check)
            api = "recv_keep"
            kw["sequential"] = True
        res = getattr(epr, api)(**kw)
        qubits = res[0] if variant.endswith("with_info") else res
        conn.flush()
    except simctl.Blocked as exc:
        add_violation(part, f"blocks/{hw}/{variant}", f"subroutine blocks for ever: {exc}", case)
        return
    except Exception as exc:
        _guard(exc)
        import traceback
        tb = traceback.extract_tb(exc.__traceback__)
        fn = next((f.name for f in reversed(tb) if "/netqasm/" in f.filename), "?")
        if isinstance(exc, AssertionError) and fn == "_create_ent_qubits" and hw != "generic" and others > 0:
            # the SDK cannot compile this program at all on NV (hard-coded memory ids collide with a live qubit):
            # that is the open C09 finding sdk-assertion:_create_ent_qubits, not a Bell-correction question
            count(part, "not-compilable-on-nv(C09-finding)")
            return
        add_violation(part, f"raises/{hw}/{variant}/{type(exc).__name__}:{fn}", f"{type(exc).__name__}: {str(exc).splitlines()[0][:160] if str(exc) else ''}", case)
        return
    ex = ctrl.executor
    if len(link.delivered) != n:
        add_violation(part, f"pairs-delivered/{hw}/{variant}", f"{len(link.delivered)} pairs were consumed, {n} requested", case)
        return
    for i, d in enumerate(link.delivered):
        phys = phys_of(ctrl, conn, qubits[i])
        if phys is None or not ex.qs.has(phys):
            add_violation(part, f"handle-unallocated/{hw}/{variant}", f"handle {i} (virtual id {qubits[i].qubit_id}) is not allocated after the flush", case)
            return
        want = "PHI_PLUS" if (recv and expect) else bells[i]
        f = ex.qs.fidelity_with([phys, d["remote"]], qsim.BELL[want])
        if abs(f - 1) > 1e-9:
            best = max(BELLS, key=lambda b: ex.qs.fidelity_with([phys, d["remote"]], qsim.BELL[b]))
            what = ("correction for pair %d missing/wrong/applied to another qubit" % i) if recv and expect else \
                   ("pair %d was altered although nothing may be corrected" % i)
            alone = "/single-pair-alone" if (n == 1 and others == 0) else ""     # (the open generic-hardware finding needs n > 1 or another live qubit)
            add_violation(part, f"pair-state/{hw}/{variant}/{'expect' if (recv and expect) else 'no-correction'}/{fmt}{alone}",
                          f"{what}: link delivered {bells[i]}, qubit {i} with its partner is {best} (fidelity with {want}: {f:.3f})",
                          case, {"pair": i, "fidelities": {b: round(ex.qs.fidelity_with([phys, d['remote']], qsim.BELL[b]), 6) for b in BELLS}})
            return
    for k, q in enumerate(extra):
        phys = phys_of(ctrl, conn, q)
        want = qsim.rot("x", qsim.angle(*OTHER_STATE[k])) @ np.array([1, 0], dtype=complex)
        if phys is None or abs(ex.qs.fidelity_with([phys], want) - 1) > 1e-9:
            add_violation(part, f"unrelated-qubit-disturbed/{hw}/{variant}", f"live qubit {k} created before the request was changed", case)
            return
    count(part, "keep-agree")


def check_sequential(hw: str, n: int, bells: Tuple[str, ...], basis: str, expect: bool, part, others: int = 0) -> None:
    """recv_keep(sequential=True, post_routine=measure in Z or X): the remote half must collapse as for Phi+."""
    case = {"variant": "recv_keep:sequential", "hardware": hw, "number": n, "bell_states": list(bells), "post_basis": basis,
            "expect_phi_plus": expect, "other_live_qubits": others}

    def one(ch):
        ctrl, conn, epr, link = make_world(hw, "native", bells)
        ctrl.executor.chooser = ch.outcome
        from netqasm.sdk.qubit import Qubit
        extra = []
        for k in range(others):
            q = Qubit(conn)
            q.rot_X(n=OTHER_STATE[k][0], d=OTHER_STATE[k][1])
            extra.append(q)
        outs = conn.new_array(n)

        def post(c, q, pair):
            if basis == "X":
                q.H()
            q.measure(future=outs.get_future_index(pair))
        try:
            epr.recv_keep(number=n, sequential=True, post_routine=post, expect_phi_plus=expect)
            conn.flush()
        except Exception as exc:
            _guard(exc)
            return ("raised", f"{type(exc).__name__}: {str(exc).splitlines()[0][:120] if str(exc) else ''}")
        return ("ok", ctrl, link, [outs[i] for i in range(n)], conn, extra)

    for chosen, res in choices.explore(one, max_runs=256):
        part["evals"] += 1
        part["distinct"] += 1 if any(b != "PHI_PLUS" for b in bells) else 0
        c = dict(case, choices=chosen)
        if res[0] == "raised":
            add_violation(part, f"raises/{hw}/recv_keep:sequential", res[1], c)
            return
        _, ctrl, link, outcomes, conn, extra = res
        for k, q in enumerate(extra):
            phys = phys_of(ctrl, conn, q)
            want = qsim.rot("x", qsim.angle(*OTHER_STATE[k])) @ np.array([1, 0], dtype=complex)
            if phys is None or abs(ctrl.executor.qs.fidelity_with([phys], want) - 1) > 1e-9:
                add_violation(part, f"unrelated-qubit-disturbed/{hw}/recv_keep:sequential", f"live qubit {k} created before the request was "
                              "changed (a correction hit the wrong qubit)", c)
                return
        for i, d in enumerate(link.delivered):
            o = outcomes[i]
            plus = np.array([1, 1], dtype=complex) / math.sqrt(2)
            minus = np.array([1, -1], dtype=complex) / math.sqrt(2)
            if basis == "Z":
                exp_state = {"PHI_PLUS": [o], "PHI_MINUS": [o], "PSI_PLUS": [1 - o], "PSI_MINUS": [1 - o]}
                want = np.array([1, 0] if (o == 0) else [0, 1], dtype=complex)
                if not expect:
                    bit = exp_state[bells[i]][0]
                    want = np.array([1, 0] if bit == 0 else [0, 1], dtype=complex)
            else:
                want = plus if o == 0 else minus
                if not expect and bells[i] in ("PHI_MINUS", "PSI_MINUS"):
                    want = minus if o == 0 else plus
            f = ctrl.executor.qs.fidelity_with([d["remote"]], want)
            if abs(f - 1) > 1e-9:
                add_violation(part, f"pair-state/{hw}/recv_keep:sequential/{'expect' if expect else 'no-correction'}",
                              f"pair {i} (delivered {bells[i]}): after the post routine measured {o} in {basis} the remote half is not in "
                              f"the state Phi+ predicts", c, {"fidelity": f})
                return
        count(part, "sequential-agree")


# ----------------------------------------------------------------------------- measure directly
BASIS_ROT = {"X": (0, 24, 0), "Y": (8, 0, 0), "Z": (0, 0, 0), "MX": (0, 8, 0), "MY": (24, 0, 0), "MZ": (16, 0, 0)}


def meas_distribution(bell: str, rot_a, rot_b) -> Dict[Tuple[int, int], float]:
    out = {}
    for ma in (0, 1):
        for mb in (0, 1):
            st = qsim.QState()
            st.add_pair("a", "b", bell)
            for name, r in (("a", rot_a), ("b", rot_b)):
                for ax, n in (("x", r[0]), ("y", r[1]), ("x", r[2])):
                    st.apply(qsim.rot(ax, n * math.pi / 16), name)
            pa = st.probabilities("a")[ma]
            if pa < 1e-12:
                out[(ma, mb)] = 0.0
                continue
            st.project("a", ma)
            out[(ma, mb)] = pa * st.probabilities("b")[mb]
    return out


def make_result(outcome: int, basis_l, basis_r, bell_value: int, post: bool):
    from netqasm.sdk.build_epr import EprMeasureResult
    from netqasm.sdk.connection import DebugConnection
    from netqasm.sdk.futures import Future
    conn = DebugConnection("alice")

    def fut(addr, v):
        f = Future(conn, addr, 0)
        f._value = v
        return f
    return EprMeasureResult(raw_measurement_outcome=fut(0, outcome), measurement_basis_local=basis_l, measurement_basis_remote=basis_r,
                            post_process=post, remote_node_id=fut(1, 0), generation_duration=fut(2, 1000), raw_bell_state=fut(3, bell_value))


def shard_measure(shard):
    from netqasm.qlink_compat import BellState
    from netqasm.sdk.build_epr import EprMeasBasis, basis_to_rotation
    from netqasm.sdk.connection import DebugConnection
    part = new_part()
    world.reset()
    DebugConnection.node_ids = {"alice": 0, "bob": 1}
    for basis in EprMeasBasis:
        rot_sdk = basis_to_rotation(basis)
        if tuple(rot_sdk) != BASIS_ROT[basis.name]:
            add_violation(part, f"basis-rotation/{basis.name}", f"basis_to_rotation({basis.name}) = {rot_sdk}, the documented rotation is {BASIS_ROT[basis.name]}",
                          {"basis": basis.name})
            continue
        ref = meas_distribution("PHI_PLUS", rot_sdk, rot_sdk)
        for bell in BELLS:
            raw = meas_distribution(bell, rot_sdk, rot_sdk)
            for post in (True, False):
                got: Dict[Tuple[int, int], float] = {k: 0.0 for k in raw}
                ok = True
                for (ma, mb), p in raw.items():
                    part["evals"] += 1
                    part["distinct"] += 1 if bell != "PHI_PLUS" else 0
                    case = {"measure": True, "basis": basis.name, "bell_state": bell, "raw_outcomes": [ma, mb], "post_process": post}
                    try:
                        r = make_result(ma, rot_sdk, rot_sdk, BellState[bell].value, post)
                        o = r.measurement_outcome
                    except Exception as exc:
                        _guard(exc)
                        add_violation(part, f"measure-raises/{basis.name}", f"{type(exc).__name__}: {exc}", case)
                        ok = False
                        break
                    if not post and o != ma:
                        add_violation(part, f"measure-altered-without-expectation/{basis.name}/{bell}", "outcome changed although the "
                                      "Phi+ expectation is switched off", case)
                        ok = False
                        break
                    got[(o, mb)] += p
                if ok and post:
                    if any(abs(got[k] - ref[k]) > 1e-9 for k in ref):
                        add_violation(part, f"measure-statistics/{basis.name}/{bell}", f"post-processed outcomes for delivered {bell} "
                                      f"measured in {basis.name} do not have the Phi+ joint statistics",
                                      {"measure": True, "basis": basis.name, "bell_state": bell},
                                      {"got": {str(k): round(v, 6) for k, v in got.items()}, "phi_plus": {str(k): round(v, 6) for k, v in ref.items()}})
                    else:
                        count(part, "measure-agree")
    # documented errors: mismatching or unnamed bases
    for bl, br in (((0, 24, 0), (8, 0, 0)), ((1, 2, 3), (1, 2, 3))):
        part["evals"] += 1
        try:
            make_result(0, bl, br, 1, True).measurement_outcome
            add_violation(part, "measure-no-error-for-unsupported-bases", "post-processing with mismatching/unnamed bases did not raise",
                          {"measure": True, "bases": [list(bl), list(br)]})
        except RuntimeError:
            count(part, "measure-rejects")
    add_sample(part, {"measure": True, "basis": "X", "bell_state": "PHI_MINUS", "phi_plus_distribution": {str(k): v for k, v in meas_distribution("PHI_PLUS", (0, 24, 0), (0, 24, 0)).items()}})
    return part


def shard_measure_pipeline(shard):
    """recv_measure through the pipeline (Z basis, the only one a receiver can have): outcomes scripted per pair."""
    from netqasm.qlink_compat import BellState, LinkLayerOKTypeM, ReturnType
    part = new_part()
    for n in (1, 2, 3):
        for bells in itertools.product(BELLS, repeat=n):
            for expect in (True, False):
                for raws, fmt, role in itertools.product(itertools.product((0, 1), repeat=n), ("native", "qlink_1_0"), ("recv", "create")):
                    if role == "create" and not expect:
                        continue          # the creator has no expectation switch
                    part["evals"] += 1
                    part["distinct"] += 1
                    case = {"variant": f"{role}_measure", "number": n, "bell_states": list(bells), "raw": list(raws), "expect_phi_plus": expect,
                            "format": fmt}
                    dirflag = 1 if role == "recv" else 0
                    ctrl, conn, epr, link = make_world("generic", "native", bells)
                    queue = list(range(n))

                    def on_wait():
                        if not queue:
                            raise simctl.Blocked("nothing left")
                        p = queue.pop(0)
                        if fmt == "qlink_1_0":
                            # qlink-interface 1.0 objects (Bell states and bases named, never numbered: the two numberings differ)
                            import qlink_interface as ql
                            ctrl.executor._handle_epr_response(ql.ResMeasureDirectly(
                                create_id=0, measurement_outcome=raws[p], measurement_basis=ql.MeasurementBasis.Z, directionality_flag=dirflag,
                                sequence_number=p, purpose_id=0, remote_node_id=1, goodness=1, bell_state=ql.BellState[bells[p]]))
                            return
                        ctrl.executor._handle_epr_response(LinkLayerOKTypeM(
                            type=ReturnType.OK_M, create_id=0, measurement_outcome=raws[p], measurement_basis=0, directionality_flag=dirflag,
                            sequence_number=p, purpose_id=0, remote_node_id=1, goodness=1, bell_state=BellState[bells[p]]))
                    ctrl.executor.on_wait = on_wait
                    try:
                        res = epr.recv_measure(number=n, expect_phi_plus=expect) if role == "recv" else epr.create_measure(number=n)
                        conn.flush()
                        outs = [r.measurement_outcome for r in res]
                    except Exception as exc:
                        _guard(exc)
                        add_violation(part, f"raises/generic/{role}_measure/{fmt}", f"{type(exc).__name__}: {str(exc)[:120]}", case)
                        continue
                    for p in range(n):
                        # Z basis: X-type errors flip the outcome - on the receiving side only; if the creator flipped too, the
                        # two flips would cancel and the pair would look like the raw Bell state again
                        flip = role == "recv" and expect and bells[p] in ("PSI_PLUS", "PSI_MINUS")
                        if outs[p] != (raws[p] ^ 1 if flip else raws[p]):
                            add_violation(part, f"measure-pipeline/{'creator' if role == 'create' else 'expect' if expect else 'no-correction'}/{fmt}",
                                          f"pair {p} (delivered {bells[p]}, raw {raws[p]}): post-processed outcome {outs[p]}", case)
                            break
                    else:
                        count(part, "measure-pipeline-agree")
    return part


# ----------------------------------------------------------------------------- shards
def shard_keep(shard):
    _, variant, hw, n, tier = shard
    part = new_part()
    recv = variant.startswith("recv")
    for bells in itertools.product(BELLS, repeat=n):
        for others in (0, 1, 2):
            if hw != "generic" and others + n > 5:
                continue
            for expect in ((True, False) if recv else (True,)):
                part["evals"] += 1
                part["distinct"] += 1 if any(b != "PHI_PLUS" for b in bells) else 0
                check_keep(variant, hw, n, bells, others, expect, "native", part)
        if n <= 2 and variant in ("recv_keep", "create_keep"):
            part["evals"] += 1
            part["distinct"] += 1
            check_keep(variant, hw, n, bells, 0, True, "qlink_1_0", part)
    count(part, f"variant/{variant}")
    count(part, f"hw/{hw}")
    if variant == "recv_keep" and hw == "generic" and n == 2:
        add_sample(part, {"variant": variant, "hardware": hw, "number": n, "bell_states": ["PSI_MINUS", "PHI_MINUS"], "other_live_qubits": 1})
    return part


def shard_seq(shard):
    _, hw, n = shard
    part = new_part()
    for bells in itertools.product(BELLS, repeat=n):
        for basis in ("Z", "X"):
            for expect in (True, False):
                for others in (0, 1):
                    check_sequential(hw, n, bells, basis, expect, part, others)
    count(part, "variant/recv_keep:sequential")
    return part


def _dispatch(shard):
    return {"keep": shard_keep, "seq": shard_seq, "meas": shard_measure, "measpipe": shard_measure_pipeline}[shard[0]](shard)


def run(ctx):
    nmax = 3 if ctx.tier == "quick" else 4
    shards: List[Any] = [("meas",), ("measpipe",)]
    for variant in RECV_VARIANTS + CREATE_VARIANTS:
        for hw in HW:
            for n in range(1, nmax + 1):
                if (variant.startswith("create") and n > 2) or (variant == "recv_keep:seq1" and n > 1):
                    continue
                shards.append(("keep", variant, hw, n, ctx.tier))
    for hw in HW:
        for n in (1, 2) if ctx.tier == "quick" else (1, 2, 3):
            shards.append(("seq", hw, n))
    ctx.pmap(_dispatch, shards)
    for v in RECV_VARIANTS + CREATE_VARIANTS + ["recv_keep:sequential"]:
        ctx.require(f"variant/{v}", 1)
    for hw in HW:
        ctx.require(f"hw/{hw}", 1)
    ctx.require("keep-agree", 200)
    ctx.require("measure-agree", 12)
    ctx.require("measure-pipeline-agree", 50)
    ctx.require("measure-rejects", 2)


def replay(case, part):
    if case.get("measure"):
        part["violations"].extend(shard_measure(("meas",))["violations"])
    elif case.get("variant") in ("recv_measure", "create_measure"):
        part["violations"].extend(shard_measure_pipeline(("measpipe",))["violations"])
    elif case.get("variant") == "recv_keep:sequential":
        check_sequential(case["hardware"], case["number"], tuple(case["bell_states"]), case["post_basis"], case["expect_phi_plus"], part,
                         case.get("other_live_qubits", 0))
    else:
        check_keep(case["variant"], case["hardware"], case["number"], tuple(case["bell_states"]), case["other_live_qubits"],
                   case["expect_phi_plus"], case["response_format"], part)
