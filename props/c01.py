"""C01 — binary subroutine codec is lossless and uniquely decodable per flavour.

Deciding step: exhaustive enumeration (per-field complete lattices against two
backgrounds, all position pairs over reduced domains, full products of small shapes,
all 65 536 app ids / version byte pairs, all short sequences over one
representative per shape) of encode -> decode round trips on the real codec.
"""
from __future__ import annotations

import itertools
from typing import Any, Dict, List, Sequence

from mc import codec
from mc.report import guard_harness as _guard
from mc.report import add_sample, add_violation, count, new_part

LEVEL = "exploration"
RULE = ("per flavour and instruction class: every value of every operand field (64 registers, 256 immediates, "
        "boundary lattice of 32-bit integers) against an all-zero and an all-distinct background, all pairs of "
        "fields over reduced domains, full products of shapes up to the tier's size limit; all 65536 app ids and "
        "all 65536 version byte pairs; all sequences of length 0..3 over one representative per operand shape and "
        "one sequence of length 1000; every sequence of up to 3 (quick) / 5 (thorough) operations on one Subroutine object "
        "(encode, len, str, set app id, replace / edit the instruction list, instantiate) followed by encode -> decode against "
        "the object's final state; a case is (flavour, [(mnemonic, operand leaves)], app id, version); distinct = "
        "distinct such tuples, non-trivial = at least one operand/header field non-zero")
ASSUMPTIONS = ["operands are taken inside their encodable ranges (out-of-range operands are C16's business)",
               "32-bit integers are covered on the boundary lattice {+-2^k, +-2^k+-1}, not all 2^32 values; field "
               "encodings are position-wise independent (ctypes struct fields)"]

FLAVOURS = ["vanilla", "nv", "reids"]
VERSIONS = [(0, 0), (1, 0), (255, 254)]


# --------------------------------------------------------------------------- oracle
def check_case(flav: str, items: Sequence, app_id: int, version, part, klass_by_mn=None) -> bool:
    """items: [(mnemonic, leaves)].  Returns True iff the round trip is exact."""
    from netqasm.lang.parsing.binary import deserialize
    from netqasm.lang.subroutine import Subroutine
    classes = klass_by_mn or {c.mnemonic: c for c in codec.live_classes(flav)}
    case = {"flavour": flav, "items": [[m, [list(x) if isinstance(x, tuple) else x for x in lv]] for m, lv in items],
            "app_id": app_id, "version": list(version)}
    mn0 = items[0][0] if items else "-"
    try:
        instrs = []
        for m, lv in items:
            cls = classes[m]
            instrs.append(codec.make_instr(cls, codec.live_operand_kinds(cls), lv))
        raw = bytes(Subroutine(instructions=list(instrs), app_id=app_id, netqasm_version=tuple(version)))
    except Exception as exc:  # in-range operands must encode
        _guard(exc)
        add_violation(part, f"encode-raises/{flav}/{mn0}", f"encoding in-range operands raised {type(exc).__name__}: {exc}", case)
        return False
    if len(raw) != 4 + 7 * len(instrs):
        add_violation(part, f"length/{flav}/{mn0}", f"encoded length {len(raw)} != 4+7*{len(instrs)}", case)
        return False
    try:
        dec = deserialize(raw, codec.flavour(flav))
    except Exception as exc:
        _guard(exc)
        add_violation(part, f"decode-raises/{flav}/{mn0}", f"decoding own bytes raised {type(exc).__name__}: {exc}", case,
                      {"bytes": raw})
        return False
    ok = True
    if len(dec.instructions) != len(instrs):
        add_violation(part, f"count/{flav}/{mn0}", f"{len(instrs)} instructions decode to {len(dec.instructions)}", case)
        return False
    for idx, (a, b) in enumerate(zip(instrs, dec.instructions)):
        if type(a) is not type(b):
            add_violation(part, f"decodes-as-other/{flav}/{a.mnemonic}->{getattr(b, 'mnemonic', '?')}",
                          f"{flav}: encoded {a.mnemonic} decodes as {type(b).__name__}", case,
                          {"index": idx, "sent": str(a), "got": str(b)})
            ok = False
        elif a != b:
            add_violation(part, f"roundtrip/{flav}/{a.mnemonic}", f"{flav}: {a.mnemonic} decodes with different operands",
                          case, {"index": idx, "sent": str(a), "got": str(b)})
            ok = False
    if dec.app_id != app_id:
        add_violation(part, f"header/{flav}/app_id", f"app id {app_id} decodes as {dec.app_id}", case)
        ok = False
    if tuple(dec.netqasm_version) != tuple(version):
        add_violation(part, f"header/{flav}/version", f"version {version} decodes as {dec.netqasm_version}", case)
        ok = False
    return ok


# --------------------------------------------------------------------------- shards
def shard_table(flav: str):
    """Injectivity of the live opcode / mnemonic tables."""
    part = new_part()
    f = codec.flavour(flav)
    classes = codec.live_classes(flav)
    by_id: Dict[int, List[type]] = {}
    by_mn: Dict[str, List[type]] = {}
    for c in classes:
        by_id.setdefault(c.id, []).append(c)
        by_mn.setdefault(c.mnemonic, []).append(c)
        part["evals"] += 1
        part["distinct"] += 1
    for i, cs in sorted(by_id.items()):
        if len(cs) > 1:
            names = "+".join(sorted(c.mnemonic for c in cs))
            add_violation(part, f"opcode-clash/{flav}/{names}", f"{flav}: opcode {i} shared by {names}",
                          {"flavour": flav, "opcode": i, "classes": [c.__name__ for c in cs]})
    for m, cs in sorted(by_mn.items()):
        if len(cs) > 1:
            add_violation(part, f"mnemonic-clash/{flav}/{m}", f"{flav}: mnemonic {m} shared by {[c.__name__ for c in cs]}",
                          {"flavour": flav, "mnemonic": m})
    for c in classes:
        if f.id_map.get(c.id) is not c and len(by_id[c.id]) == 1:
            add_violation(part, f"id-map/{flav}/{c.mnemonic}", f"{flav}: id_map[{c.id}] is not {c.__name__}", {"flavour": flav})
        if f.name_map.get(c.mnemonic) is not c and len(by_mn[c.mnemonic]) == 1:
            add_violation(part, f"name-map/{flav}/{c.mnemonic}", f"{flav}: name_map[{c.mnemonic}] is not {c.__name__}", {"flavour": flav})
    # flavours must not interfere with each other: build fresh instances in every order, then look every class up again
    from netqasm.lang.instr import flavour as fl
    ctors = {"vanilla": fl.VanillaFlavour, "nv": fl.NVFlavour, "reids": fl.REIDSFlavour}
    for order in itertools.permutations(ctors):
        made = {name: ctors[name]() for name in order}
        made[order[0]].__class__()          # and one more instance of the first after the others
        part["evals"] += 1
        part["distinct"] += 1
        for name, inst in made.items():
            for c in fl.CORE_INSTRUCTIONS + list(inst.instrs):
                if inst.id_map.get(c.id) is not c or inst.name_map.get(c.mnemonic) is not c:
                    add_violation(part, f"flavours-interfere/{name}", f"after constructing flavours in order {order}, the {name} "
                                  f"flavour no longer maps {c.mnemonic} (opcode {c.id}) to its own class", {"flavour": flav, "order": list(order)})
                    break
    count(part, "flavour-orders", 6)
    count(part, f"classes/{flav}", len(classes))
    add_sample(part, {"flavour": flav, "opcodes": {c.mnemonic: c.id for c in classes}})
    return part


def shard_instr(shard):
    flav, mn, mode, limit = shard
    part = new_part()
    classes = {c.mnemonic: c for c in codec.live_classes(flav)}
    cls = classes[mn]
    lk = codec.wiretable.leaf_kinds(codec.live_operand_kinds(cls))
    if mode == "lattice":
        gen = itertools.chain(codec.per_field_lattice(lk), codec.pairs_lattice(lk), codec.walking_ones(lk))
        seen = set()
        for lv in gen:
            if lv in seen:
                continue
            seen.add(lv)
            part["evals"] += 1
            if any(v not in (0, (0, 0)) for v in lv):
                part["distinct"] += 1
            check_case(flav, [(mn, lv)], 0, (0, 0), part, classes)
        add_sample(part, {"flavour": flav, "mnemonic": mn, "leaves": list(next(iter(codec.per_field_lattice(lk)), ()))})
    elif mode == "product":
        dom = codec.FULL if codec.product_size(lk, codec.FULL) <= limit else codec.REDUCED
        if codec.product_size(lk, dom) > limit:
            part["notes"].append(f"product of {mn} over reduced domains exceeds limit; skipped")
            return part
        n = 0
        for lv in codec.full_product(lk, dom):
            n += 1
            check_case(flav, [(mn, lv)], 0, (0, 0), part, classes)
        part["evals"] += n
        part["distinct"] += max(0, n - 1)
        count(part, "product-points", n)
        count(part, "product-full-domain" if dom is codec.FULL else "product-reduced-domain")
    count(part, f"class-explored/{flav}")
    return part


def shard_header(shard):
    flav, which, lo, hi = shard
    part = new_part()
    body = [("set", ((0, 1), 5))]
    for x in range(lo, hi):
        if which == "app":
            for v in VERSIONS:
                part["evals"] += 1
                part["distinct"] += 1 if (x or v != (0, 0)) else 0
                check_case(flav, body, x, v, part)
        else:
            v = (x >> 8, x & 0xFF)
            for a in (0, 1, 65535):
                part["evals"] += 1
                part["distinct"] += 1 if (x or a) else 0
                check_case(flav, body, a, v, part)
    count(part, "header-cases", part["evals"])
    return part


def representatives(flav: str):
    """One instruction per distinct operand shape (first class of that shape)."""
    reps = {}
    for c in codec.live_classes(flav):
        kinds = tuple(codec.live_operand_kinds(c))
        if kinds not in reps:
            reps[kinds] = (c.mnemonic, tuple(codec.background_high(codec.wiretable.leaf_kinds(kinds))))
    return list(reps.values())


def shard_seq(shard):
    flav, first = shard
    part = new_part()
    reps = representatives(flav)
    if first is None:
        seqs = [[]] + [[reps[i % len(reps)] for i in range(1000)]]
    else:
        seqs = [[reps[first]]]
        seqs += [[reps[first], b] for b in reps]
        seqs += [[reps[first], b, c] for b in reps for c in reps]
    for s in seqs:
        part["evals"] += 1
        part["distinct"] += 1
        check_case(flav, s, 7, (1, 2), part)
    count(part, "sequences", len(seqs))
    if first == 0:
        add_sample(part, {"flavour": flav, "sequence": [m for m, _ in seqs[-1]]})
    return part


# --------------------------------------------------------------------------- object histories
# The property quantifies over subroutines, and a Subroutine object is mutable (app_id / instructions setters, in-place list
# edits, instantiate): every state such an object can be brought into must encode to bytes that decode to *that* state, also
# when it was encoded, measured or printed before.  All operation sequences up to the tier's depth are enumerated.
HIST_OPS = ["bytes", "len", "str", "cstructs", "app=0", "app=65535", "instrs=A", "instrs=B", "instrs=[]", "append", "setitem0",
            "instantiate"]


def run_history(flav: str, ops: Sequence[str], part) -> None:
    from netqasm.lang.parsing.binary import deserialize
    from netqasm.lang.subroutine import Subroutine
    classes = {c.mnemonic: c for c in codec.live_classes(flav)}
    reps = representatives(flav)

    def mk(i):
        m, lv = reps[i % len(reps)]
        return codec.make_instr(classes[m], codec.live_operand_kinds(classes[m]), lv)

    case = {"flavour": flav, "history": list(ops)}
    model_app, model_instrs = 7, [mk(0)]
    try:
        sub = Subroutine(instructions=list(model_instrs), app_id=7, netqasm_version=(1, 2))
        for op in ops:
            if op == "bytes":
                bytes(sub)
            elif op == "len":
                len(sub)
            elif op == "str":
                str(sub)
            elif op == "cstructs":
                sub.cstructs
            elif op.startswith("app="):
                model_app = int(op[4:])
                sub.app_id = model_app
            elif op == "instrs=A":
                model_instrs = [mk(1), mk(2)]
                sub.instructions = list(model_instrs)
            elif op == "instrs=B":
                model_instrs = [mk(3)]
                sub.instructions = list(model_instrs)
            elif op == "instrs=[]":
                model_instrs = []
                sub.instructions = []
            elif op == "append":
                model_instrs = model_instrs + [mk(4)]
                sub.instructions.append(mk(4))
            elif op == "setitem0":
                if model_instrs:
                    model_instrs = [mk(5)] + model_instrs[1:]
                    sub.instructions[0] = mk(5)
            elif op == "instantiate":
                model_app = 3
                sub.instantiate(3, {})
        dec = deserialize(bytes(sub), codec.flavour(flav))
    except Exception as exc:
        _guard(exc)
        add_violation(part, f"history-raises/{flav}", f"{type(exc).__name__}: {exc}", case)
        return
    if dec.app_id != model_app:
        add_violation(part, f"history/{flav}/app_id", f"after {list(ops)} the subroutine has app id {model_app} but its bytes decode "
                      f"to app id {dec.app_id}", case)
    if tuple(dec.netqasm_version) != (1, 2):
        add_violation(part, f"history/{flav}/version", f"after {list(ops)} the version decodes as {dec.netqasm_version}", case)
    if list(dec.instructions) != model_instrs:
        add_violation(part, f"history/{flav}/instructions", f"after {list(ops)} the subroutine holds {[str(i) for i in model_instrs]} "
                      f"but its bytes decode to {[str(i) for i in dec.instructions]}", case)


def shard_history(shard):
    flav, first, depth = shard
    part = new_part()
    n = 0
    for d in range(0, depth):
        for rest in itertools.product(HIST_OPS, repeat=d):
            n += 1
            run_history(flav, (first,) + rest, part)
    part["evals"] += n
    part["distinct"] += n
    count(part, "histories", n)
    count(part, f"history-depth/{depth}")
    if first == "bytes":
        add_sample(part, {"flavour": flav, "history": ["bytes", "app=65535", "bytes"], "oracle": "final bytes decode to the final object state"})
    return part


def _dispatch(shard):
    kind = shard[0]
    return {"table": lambda s: shard_table(s[1]), "instr": lambda s: shard_instr(s[1:]),
            "header": lambda s: shard_header(s[1:]), "seq": lambda s: shard_seq(s[1:]),
            "history": lambda s: shard_history(s[1:])}[kind](shard)


def run(ctx):
    limit = 70000 if ctx.tier == "quick" else 2 ** 22 + 1
    shards: List[Any] = []
    hist_depth = 3 if ctx.tier == "quick" else 5
    for flav in FLAVOURS:
        shards.append(("table", flav))
        for c in codec.live_classes(flav):
            shards.append(("instr", flav, c.mnemonic, "lattice", 0))
            shards.append(("instr", flav, c.mnemonic, "product", limit))
        step = 4096
        for lo in range(0, 65536, step):
            shards.append(("header", flav, "app", lo, lo + step))
            shards.append(("header", flav, "ver", lo, lo + step))
        nreps = len(representatives(flav))
        shards.append(("seq", flav, None))
        for i in range(nreps):
            shards.append(("seq", flav, i))
        for op in HIST_OPS:
            shards.append(("history", flav, op, hist_depth))
    ctx.pmap(_dispatch, shards, chunksize=2)
    for flav in FLAVOURS:
        ctx.require(f"classes/{flav}", 30)
        ctx.require(f"class-explored/{flav}", 30)
    ctx.require("header-cases", 3 * 65536 * 6)
    ctx.require("sequences", 1000)
    ctx.require("product-points", 10000)
    ctx.require("histories", 3 * len(HIST_OPS) * (1 + len(HIST_OPS) + len(HIST_OPS) ** 2))
    ctx.extra["history_depth"] = hist_depth
    ctx.extra["tier_product_limit"] = limit


def replay(case, part):
    if "history" in case:
        run_history(case["flavour"], case["history"], part)
    elif "items" in case:
        items = [(m, [tuple(x) if isinstance(x, list) else x for x in lv]) for m, lv in case["items"]]
        check_case(case["flavour"], items, case["app_id"], tuple(case["version"]), part)
    else:
        p = shard_table(case["flavour"])
        part["violations"].extend(p["violations"])
