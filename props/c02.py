"""C02 — wire format follows the fixed 7-byte NetQASM command layout.

Deciding step: exhaustive enumeration of valuations in which every field and every
bit of every field is distinguished (walking ones, all-distinct values, complete
per-field lattices, all app ids / version bytes), each compared byte for byte with
an independent reference encoder driven by a frozen opcode/operand table that is
data of the verifier (mc/wiretable.py), and decoded back from the *reference*
bytes by the real decoder.
"""
from __future__ import annotations

import itertools
from typing import Any, List

from mc import codec, wiretable
from mc.report import guard_harness as _guard
from mc.report import add_sample, add_violation, count, new_part

LEVEL = "exploration"
RULE = ("per flavour and tabled mnemonic: walking-one valuations (each bit of each field alone), an all-distinct "
        "valuation, every value of every field against two backgrounds, all field pairs over reduced domains, full products of shapes up to the tier's size limit; all "
        "65536 app ids and version byte pairs; bytes(Subroutine) must equal the frozen-table reference encoding and "
        "the reference bytes must decode to the instruction; distinct = distinct (flavour, mnemonic, leaves, header), "
        "non-trivial = some field non-zero")
ASSUMPTIONS = ["the frozen table mc/wiretable.py is the published instruction table (reviewed by hand against the "
               "pinned tree; mov carries its repaired opcode 42)",
               "instructions the repository adds that are not in the table are reported as 'untabled' and not judged"]

FLAVOURS = ["vanilla", "nv", "reids"]


def check_one(flav: str, mn: str, lv, app_id: int, version, part) -> bool:
    from netqasm.lang.parsing.binary import deserialize
    from netqasm.lang.subroutine import Subroutine
    opcode, kinds = wiretable.FLAVOURS[flav][mn]
    lk = wiretable.leaf_kinds(kinds)
    case = {"flavour": flav, "mnemonic": mn, "leaves": [list(x) if isinstance(x, tuple) else x for x in lv],
            "app_id": app_id, "version": list(version)}
    expected = codec.ref_header(tuple(version), app_id) + codec.ref_encode_instr(opcode, lk, lv)
    f = codec.flavour(flav)
    cls = f.name_map.get(mn)
    if cls is None:
        add_violation(part, f"missing/{flav}/{mn}", f"{flav}: published instruction {mn} is unknown to the flavour", case)
        return False
    try:
        instr = codec.make_instr(cls, kinds, lv)
        raw = bytes(Subroutine(instructions=[instr], app_id=app_id, netqasm_version=tuple(version)))
    except Exception as exc:
        _guard(exc)
        add_violation(part, f"encode-raises/{flav}/{mn}", f"building/encoding {mn} with the published operand list raised "
                      f"{type(exc).__name__}: {exc}", case)
        return False
    ok = True
    if raw != expected:
        if raw[:4] != expected[:4]:
            fp = f"header-layout/{flav}"
        elif raw[4] != expected[4]:
            fp = f"opcode/{flav}/{mn}"
        else:
            fp = f"layout/{flav}/{mn}"
        add_violation(part, fp, f"{flav} {mn}: bytes differ from the published layout", case,
                      {"got": raw, "expected": expected})
        ok = False
    try:
        dec = deserialize(expected, f)
        good = (len(dec.instructions) == 1 and type(dec.instructions[0]) is cls and dec.instructions[0] == instr
                and dec.app_id == app_id and tuple(dec.netqasm_version) == tuple(version))
        if not good:
            add_violation(part, f"decode-published/{flav}/{mn}", f"{flav} {mn}: bytes in the published layout decode differently",
                          case, {"bytes": expected, "got": [str(i) for i in dec.instructions], "app_id": dec.app_id})
            ok = False
    except Exception as exc:
        _guard(exc)
        add_violation(part, f"decode-published/{flav}/{mn}", f"{flav} {mn}: decoding published-layout bytes raised "
                      f"{type(exc).__name__}: {exc}", case, {"bytes": expected})
        ok = False
    return ok


def shard_instr(shard):
    _, flav, mn = shard
    part = new_part()
    opcode, kinds = wiretable.FLAVOURS[flav][mn]
    lk = wiretable.leaf_kinds(kinds)
    seen = set()
    gen = itertools.chain(codec.walking_ones(lk), [tuple(codec.background_high(lk))],
                          codec.per_field_lattice(lk), codec.pairs_lattice(lk))
    for lv in gen:
        if lv in seen:
            continue
        seen.add(lv)
        part["evals"] += 1
        if any(v not in (0, (0, 0)) for v in lv):
            part["distinct"] += 1
        check_one(flav, mn, lv, 0, (0, 0), part)
    count(part, "walking-ones", sum(1 for _ in codec.walking_ones(lk)))
    count(part, f"tabled-explored/{flav}")
    if mn in ("store", "meas_basis", "wait_all"):
        lv = tuple(codec.background_high(lk))
        add_sample(part, {"flavour": flav, "mnemonic": mn, "leaves": lv,
                          "reference_bytes": codec.ref_encode_instr(opcode, lk, lv)})
    return part


def shard_product(shard):
    """thorough: the full product of every shape with at most 2^22 points (complete domains), else reduced domains"""
    _, flav, mn, limit = shard
    part = new_part()
    opcode, kinds = wiretable.FLAVOURS[flav][mn]
    lk = wiretable.leaf_kinds(kinds)
    dom = codec.FULL if codec.product_size(lk, codec.FULL) <= limit else codec.REDUCED
    if codec.product_size(lk, dom) > limit:
        part["notes"].append(f"product of {mn} over reduced domains exceeds the limit; skipped")
        return part
    n = 0
    for lv in codec.full_product(lk, dom):
        n += 1
        check_one(flav, mn, lv, 0, (0, 0), part)
    part["evals"] += n
    part["distinct"] += max(0, n - 1)
    count(part, "product-points", n)
    return part


def shard_coexist(shard):
    """flavour objects constructed in every order must still decode published bytes of their own instructions"""
    from netqasm.lang.instr import flavour as fl
    from netqasm.lang.parsing.binary import deserialize
    part = new_part()
    ctors = {"vanilla": fl.VanillaFlavour, "nv": fl.NVFlavour, "reids": fl.REIDSFlavour}
    for order in itertools.permutations(ctors):
        made = {name: ctors[name]() for name in order}
        deserialize(codec.ref_header((0, 0), 0))          # the default-flavour path constructs yet another vanilla flavour
        for name, inst in made.items():
            for mn, (opcode, kinds) in wiretable.FLAVOURS[name].items():
                lk = wiretable.leaf_kinds(kinds)
                lv = codec.background_high(lk)
                part["evals"] += 1
                part["distinct"] += 1
                raw = codec.ref_header((0, 0), 1) + codec.ref_encode_instr(opcode, lk, lv)
                case = {"flavour": name, "mnemonic": mn, "construction_order": list(order)}
                try:
                    dec = deserialize(raw, inst).instructions[0]
                except Exception as exc:
                    _guard(exc)
                    add_violation(part, f"coexist-decode-raises/{name}", f"{type(exc).__name__}: {exc}", case)
                    continue
                cls = inst.name_map.get(mn)
                if dec.mnemonic != mn or type(dec) is not cls or bytes(dec.serialize()) != raw[4:]:
                    add_violation(part, f"coexist-decode/{name}/{mn}", f"with flavours constructed in order {order}, published bytes of {name} "
                                  f"{mn} decode as {type(dec).__module__.split('.')[-1]}.{type(dec).__name__}", case)
    count(part, "coexist-orders", 6)
    return part


def shard_mutate(shard):
    """An instruction whose operands are changed after a first encoding must encode its CURRENT operands
    (ArrayEntry / ArraySlice and the instruction objects themselves are mutable and are rewritten in place by the
    assembler and the transpiler)."""
    import dataclasses
    from netqasm.lang.operand import ArrayEntry, ArraySlice
    _, flav = shard
    part = new_part()
    f = codec.flavour(flav)
    for mn, (opcode, kinds) in wiretable.FLAVOURS[flav].items():
        cls = f.name_map.get(mn)
        if cls is None:
            continue
        lk = wiretable.leaf_kinds(kinds)
        a, b = codec.background_low(lk), codec.background_high(lk)
        instr = codec.make_instr(cls, kinds, a)
        first = bytes(instr.serialize())
        fresh = codec.make_instr(cls, kinds, b)
        names = [fd.name for fd in dataclasses.fields(cls)[3:]]
        try:
            for nm in names:
                cur, new = getattr(instr, nm), getattr(fresh, nm)
                if isinstance(cur, (ArrayEntry, ArraySlice)):
                    for attr in ("address", "index", "start", "stop"):
                        if hasattr(cur, attr):
                            setattr(cur, attr, getattr(new, attr))        # in-place, as _replace_constants does
                else:
                    setattr(instr, nm, new)
        except (AttributeError, TypeError):
            count(part, "operands-immutable")          # nothing can go stale if operands cannot be changed in place
            continue
        part["evals"] += 1
        part["distinct"] += 1
        second = bytes(instr.serialize())
        want = codec.ref_encode_instr(opcode, lk, b)
        if second != want:
            add_violation(part, f"stale-after-mutation/{flav}/{mn}", f"{flav} {mn}: after its operands were changed in place the instruction "
                          "still encodes the old operands", {"flavour": flav, "mnemonic": mn, "mutate": True},
                          {"first": first, "second": second, "expected": want})
    count(part, f"mutate/{flav}")
    return part


HIST_OPS = ["bytes", "len", "str", "cstructs", "app=0", "app=65535", "instrs=A", "instrs=B", "instrs=[]", "append", "setitem0",
            "instantiate"]


def _hist_reps(flav: str):
    """one tabled instruction per distinct operand shape: (real instruction factory, reference bytes)"""
    f = codec.flavour(flav)
    seen, out = set(), []
    for mn, (opcode, kinds) in wiretable.FLAVOURS[flav].items():
        cls = f.name_map.get(mn)
        if cls is None or tuple(kinds) in seen:
            continue
        seen.add(tuple(kinds))
        lk = wiretable.leaf_kinds(kinds)
        lv = codec.background_high(lk)
        out.append((cls, kinds, lv, codec.ref_encode_instr(opcode, lk, lv).ljust(7, b"\0")))
    return out


def run_history(flav: str, ops, part, reps=None) -> None:
    """One Subroutine object through a sequence of observations and mutations; the bytes it then produces must be the published
    layout of the state it then has (header | 7-byte commands), computed by the reference encoder."""
    from netqasm.lang.subroutine import Subroutine
    reps = reps or _hist_reps(flav)

    def mk(i):
        cls, kinds, lv, ref = reps[i % len(reps)]
        return codec.make_instr(cls, kinds, lv), ref

    case = {"flavour": flav, "history": list(ops)}
    app, body = 7, [mk(0)[1]]
    try:
        sub = Subroutine(instructions=[mk(0)[0]], app_id=7, netqasm_version=(1, 2))
        for op in ops:
            if op == "bytes":
                bytes(sub)
            elif op == "len":
                len(sub)
            elif op == "str":
                str(sub)
            elif op == "cstructs":
                sub.cstructs
            elif op.startswith("app="):
                app = int(op[4:])
                sub.app_id = app
            elif op == "instrs=A":
                sub.instructions = [mk(1)[0], mk(2)[0]]
                body = [mk(1)[1], mk(2)[1]]
            elif op == "instrs=B":
                sub.instructions = [mk(3)[0]]
                body = [mk(3)[1]]
            elif op == "instrs=[]":
                sub.instructions = []
                body = []
            elif op == "append":
                sub.instructions.append(mk(4)[0])
                body = body + [mk(4)[1]]
            elif op == "setitem0":
                if body:
                    sub.instructions[0] = mk(5)[0]
                    body = [mk(5)[1]] + body[1:]
            elif op == "instantiate":
                app = 3
                sub.instantiate(3, {})
        raw = bytes(sub)
    except Exception as exc:
        _guard(exc)
        add_violation(part, f"history-raises/{flav}", f"{type(exc).__name__}: {exc}", case)
        return
    want = codec.ref_header((1, 2), app) + b"".join(body)
    if raw != want:
        where = "header" if raw[:4] != want[:4] else "commands"
        add_violation(part, f"history/{flav}/{where}", f"after {list(ops)} the subroutine (app id {app}, {len(body)} instructions) does "
                      f"not encode to the published layout of that state", case, {"bytes": raw, "expected": want})


def shard_history(shard):
    _, flav, first, depth = shard
    part = new_part()
    reps = _hist_reps(flav)
    n = 0
    for d in range(0, depth):
        for rest in itertools.product(HIST_OPS, repeat=d):
            n += 1
            run_history(flav, (first,) + rest, part, reps)
    part["evals"] += n
    part["distinct"] += n
    count(part, "histories", n)
    if first == "bytes":
        add_sample(part, {"flavour": flav, "history": ["bytes", "instantiate", "bytes"], "oracle": "final bytes = reference layout of the final state"})
    return part


def shard_header(shard):
    _, flav, which, lo, hi = shard
    part = new_part()
    lv = ((0, 1), 5)
    for x in range(lo, hi):
        if which == "app":
            cases = [(x, (0, 0)), (x, (3, 200))]
        else:
            cases = [(0, (x >> 8, x & 0xFF)), (0xABCD, (x >> 8, x & 0xFF))]
        for a, v in cases:
            part["evals"] += 1
            part["distinct"] += 1 if (a or v != (0, 0)) else 0
            check_one(flav, "set", lv, a, v, part)
    count(part, "header-cases", part["evals"])
    return part


def shard_untabled(shard):
    _, flav = shard
    part = new_part()
    tabled = wiretable.FLAVOURS[flav]
    for c in codec.live_classes(flav):
        if c.mnemonic not in tabled:
            count(part, f"untabled/{flav}/{c.mnemonic}")
            part["notes"].append(f"{flav}: live instruction {c.mnemonic} (opcode {c.id}) is not in the frozen table; not judged")
            # it must at least not take a published opcode
            for mn, (op, _) in tabled.items():
                if op == c.id:
                    add_violation(part, f"opcode-taken/{flav}/{c.mnemonic}", f"{flav}: untabled instruction {c.mnemonic} "
                                  f"uses the published opcode {op} of {mn}", {"flavour": flav, "mnemonic": c.mnemonic})
    part["evals"] += 1
    return part


def _dispatch(shard):
    return {"instr": shard_instr, "header": shard_header, "untabled": shard_untabled, "product": shard_product,
            "coexist": shard_coexist, "mutate": shard_mutate, "history": shard_history}[shard[0]](shard)


def run(ctx):
    shards: List[Any] = [("coexist",)]
    for flav in FLAVOURS:
        shards.append(("untabled", flav))
        shards.append(("mutate", flav))
        for op in HIST_OPS:
            shards.append(("history", flav, op, 3 if ctx.tier == "quick" else 4))
        for mn in wiretable.FLAVOURS[flav]:
            shards.append(("instr", flav, mn))
            shards.append(("product", flav, mn, 70000 if ctx.tier == "quick" else 2 ** 22 + 1))
        step = 8192
        for lo in range(0, 65536, step):
            shards.append(("header", flav, "app", lo, lo + step))
            shards.append(("header", flav, "ver", lo, lo + step))
    ctx.pmap(_dispatch, shards, chunksize=2)
    for flav in FLAVOURS:
        ctx.require(f"tabled-explored/{flav}", len(wiretable.FLAVOURS[flav]))
    ctx.require("header-cases", 3 * 65536 * 4)
    ctx.require("walking-ones", 500)
    ctx.require("coexist-orders", 6)
    for flav in FLAVOURS:
        ctx.require(f"mutate/{flav}", 1)
    ctx.require("product-points", 10000)
    ctx.require("histories", 3 * len(HIST_OPS) * (1 + len(HIST_OPS) + len(HIST_OPS) ** 2))


def replay(case, part):
    if "history" in case:
        run_history(case["flavour"], case["history"], part)
        return
    if case.get("mutate"):
        part["violations"].extend(shard_mutate(("mutate", case["flavour"]))["violations"])
        return
    if "construction_order" in case:
        part["violations"].extend(shard_coexist(("coexist",))["violations"])
        return
    lv = [tuple(x) if isinstance(x, list) else x for x in case["leaves"]]
    check_one(case["flavour"], case["mnemonic"], lv, case["app_id"], tuple(case["version"]), part)
