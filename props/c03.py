"""C03 — assembling text or IR into a subroutine preserves program meaning.

Deciding step: exhaustive enumeration of all source programs up to N instructions over a
curated instance menu (literals in every register position, array indices and slice bounds),
every placement of up to two labels (consecutive, after the last instruction, forward and
backward references), macro definitions (prefix-related keys, every definition order) and the
register-pressure family; each program is assembled by the real assembler through both entry
forms (text, ProtoSubroutine) and the result is (i) executed on the reference VM against the
source-level interpretation from a state where every register holds a distinct sentinel and
(ii) re-derived structurally.
"""
from __future__ import annotations

import itertools
from typing import Any, Callable, Dict, List, Optional, Sequence, Tuple

from mc import refvm
from mc.report import guard_harness as _guard
from mc.report import add_sample, add_violation, count, new_part

LEVEL = "exploration"
RULE = ("all source programs of <= N instructions over the instance menu x all label placements/references x {text, IR} entry "
        "form; macro programs: every ordered subset of definitions over keys {i,q,q0} x uses; register-pressure programs naming "
        "13..16 registers x final instruction needing 1..4 scratch registers; every {register, literal} combination of the operand positions of every instruction shape (alone, after and before another literal-carrying instruction); oracle: source-level interpretation == assembled "
        "program on the reference VM (named registers, arrays, shared memory, allocation, fault class and source-pc trace) and "
        "structural re-derivation; distinct = distinct (form, program); non-trivial = program with at least one literal, label "
        "or macro to resolve")
ASSUMPTIONS = ["numeric branch targets and rotation/measurement immediates must stay immediate (checked structurally)",
               "raising a clear error when no scratch register is left is accepted; silent clobbering is not"]

R = lambda i: ("r", "R", i)
C = lambda i: ("r", "C", i)
Q = lambda i: ("r", "Q", i)
L = lambda n: ("label", n)
E = lambda a, i: ("entry", a, i)
SL = lambda a, s, e: ("slice", a, s, e)
AD = lambda a: ("addr", a)

# positions that must stay immediate (mirrors the ISA: set value, branch targets)
def stays_immediate(mn: str, pos: int) -> bool:
    return (mn == "set" and pos == 1) or (mn == "jmp" and pos == 0) or (mn in ("bez", "bnz") and pos == 1) or \
        (mn in ("beq", "bne", "blt", "bge") and pos == 2) or (mn in ("rot_x", "rot_y", "rot_z") and pos in (1, 2)) or \
        (mn == "meas_basis" and pos >= 2) or (mn == "breakpoint") or (mn in ("crot_x", "crot_y") and pos in (2, 3))


FULL_MENU: List[Tuple[str, List[Any]]] = [
    ("set", [R(0), 1]), ("set", [R(1), 0]), ("set", [R(15), 2]), ("set", [C(0), -1]),
    ("add", [R(0), R(0), R(1)]), ("add", [R(1), R(0), 1]), ("add", [R(0), 2, R(1)]), ("sub", [R(15), R(0), 1]),
    ("addm", [R(0), R(0), 1, 2]), ("subm", [R(1), 0, R(0), 2]), ("addm", [R(0), R(1), R(15), C(0)]),
    ("store", [R(0), E(0, R(1))]), ("store", [7, E(0, R(0))]), ("store", [R(1), E(0, 1)]), ("store", [5, E(1, 2)]),
    ("store", [3, E(0, R(15))]),
    ("load", [R(1), E(0, R(0))]), ("load", [R(0), E(1, 1)]), ("load", [R(15), E(0, 2)]), ("load", [R(0), E(1, 0)]),
    ("undef", [E(0, R(1))]), ("undef", [E(0, 1)]),
    ("lea", [R(1), AD(1)]),
    ("array", [2, AD(2)]), ("array", [R(15), AD(2)]),
    ("ret_reg", [R(0)]), ("ret_arr", [AD(0)]),
    ("qalloc", [Q(0)]), ("qalloc", [1]), ("qfree", [Q(0)]), ("qfree", [1]),
    ("wait_all", [SL(0, 0, 2)]), ("wait_all", [SL(1, R(0), R(1))]), ("wait_any", [SL(1, 0, 3)]), ("wait_single", [E(1, 1)]),
    ("wait_single", [E(1, R(0))]),
]
BRANCH_MENU = [
    ("jmp", [L("?")]), ("bez", [R(0), L("?")]), ("bnz", [R(1), L("?")]), ("bez", [0, L("?")]),
    ("beq", [R(0), 1, L("?")]), ("bne", [1, R(1), L("?")]), ("blt", [R(0), R(1), L("?")]), ("bge", [R(0), 2, L("?")]),
]
REDUCED_MENU = [FULL_MENU[i] for i in (0, 2, 5, 6, 8, 11, 12, 13, 15, 16, 19, 21, 23, 25, 26, 28, 30, 31, 32, 34, 35)]
REDUCED_BRANCH = [BRANCH_MENU[i] for i in (0, 1, 3, 4, 7)]

NAMED_DEFAULT = [("R", 0), ("R", 1), ("R", 15), ("C", 0), ("Q", 0)]


def initial_state() -> refvm.RefState:
    s = refvm.RefState(unit_size=3)
    for b in "RCQM":
        for i in range(16):
            s.regs[(b, i)] = 100 + 16 * "RCQM".index(b) + i    # distinct sentinels (as left by an earlier subroutine)
    s.regs[("R", 0)] = 0
    s.regs[("R", 1)] = 1
    s.regs[("R", 15)] = 2
    s.regs[("C", 0)] = 1
    s.regs[("Q", 0)] = 0
    s.arrays = {0: [10, 11, 12], 1: [None, 21, None]}
    return s


# ----------------------------------------------------------------------------- rendering
def op_text(o) -> str:
    if isinstance(o, int):
        return str(o)
    if isinstance(o, str):
        return o                      # macro use, e.g. "$i"
    if o[0] == "r":
        return f"{o[1]}{o[2]}"
    if o[0] == "label":
        return o[1]
    if o[0] == "addr":
        return f"@{o[1]}"
    if o[0] == "entry":
        return f"@{o[1]}[{op_text(o[2])}]"
    if o[0] == "slice":
        return f"@{o[1]}[{op_text(o[2])}:{op_text(o[3])}]"
    raise TypeError(o)


def render_text(items, defines=(), bracket_first=False, bracket_sep: str = ", ") -> str:
    lines = ["# NETQASM 0.0", "# APPID 0"]
    for k, v in defines:
        lines.append(f"# DEFINE {k} {v}")
    for it in items:
        if it[0] == "label:":
            lines.append(f"{it[1]}:")
        else:
            mn, ops = it
            nb = int(bracket_first)
            if nb and len(ops) >= nb and all(isinstance(o, int) for o in ops[:nb]):
                # argument brackets: op(a, b) rest  (the bracketed operands come first)
                lines.append(f"{mn}({bracket_sep.join(str(o) for o in ops[:nb])}) " + " ".join(op_text(o) for o in ops[nb:]))
            else:
                lines.append(f"{mn} " + " ".join(op_text(o) for o in ops))
    return "\n".join(lines) + "\n"


def render_proto(items):
    from netqasm.lang.encoding import RegisterName
    from netqasm.lang.ir import BranchLabel, GenericInstr, ICmd, ProtoSubroutine
    from netqasm.lang.operand import Address, ArrayEntry, ArraySlice, Label, Register

    def conv(o):
        if isinstance(o, int):
            return o
        if o[0] == "r":
            return Register(RegisterName[o[1]], o[2])
        if o[0] == "label":
            return Label(o[1])
        if o[0] == "addr":
            return Address(o[1])
        if o[0] == "entry":
            return ArrayEntry(Address(o[1]), conv(o[2]))
        if o[0] == "slice":
            return ArraySlice(Address(o[1]), conv(o[2]), conv(o[3]))
        raise TypeError(o)

    cmds = []
    for it in items:
        if it[0] == "label:":
            cmds.append(BranchLabel(it[1]))
        else:
            cmds.append(ICmd(instruction=GenericInstr[it[0].upper()], operands=[conv(o) for o in it[1]]))
    return ProtoSubroutine(commands=cmds, netqasm_version=(0, 0), app_id=0)


def assemble(items, form: str, defines=(), bracket_first=False, bracket_sep=", "):
    from netqasm.lang.parsing.text import assemble_subroutine, parse_text_subroutine
    if form == "text":
        return parse_text_subroutine(render_text(items, defines, bracket_first, bracket_sep))
    return assemble_subroutine(render_proto(items))


# ----------------------------------------------------------------------------- oracle
def split_source(items):
    """-> (instrs, labels{name: index of next instruction})"""
    instrs, labels = [], {}
    for it in items:
        if it[0] == "label:":
            labels[it[1]] = len(instrs)
        else:
            instrs.append(it)
    return instrs, labels


def named_registers(instrs) -> set:
    out = set()

    def walk(o):
        if isinstance(o, tuple):
            if o[0] == "r":
                out.add((o[1], o[2]))
            elif o[0] in ("entry", "slice"):
                for x in o[2:]:
                    walk(x)
    for _, ops in instrs:
        for o in ops:
            walk(o)
    return out


def literal_slots(mn, ops) -> List[int]:
    """literal values that need a scratch register, in operand order."""
    vals = []
    for p, o in enumerate(ops):
        if isinstance(o, int):
            if not stays_immediate(mn, p):
                vals.append(o)
        elif isinstance(o, tuple) and o[0] in ("entry", "slice"):
            for x in o[2:]:
                if isinstance(x, int):
                    vals.append(x)
    return vals


def structural(instrs, labels, asm, case, part, form) -> Optional[List[int]]:
    """Re-derives the source from the assembled program.  Returns map assembled index -> source index
    (or -1 for inserted sets) when the shape is right, else None (violation recorded)."""
    named = named_registers(instrs)
    p = 0
    amap: List[int] = []
    starts: List[int] = []
    for si, (mn, ops) in enumerate(instrs):
        lits = literal_slots(mn, ops)
        starts.append(p)
        scratch: Dict[Tuple[str, int], int] = {}
        for _ in lits:
            if p >= len(asm) or asm[p][0] != "set":
                add_violation(part, f"structure/{form}/missing-constant-load", "a literal operand is not materialised by a set "
                              "instruction before its consumer", case, {"assembled": asm, "at": p})
                return None
            reg, v = asm[p][1][0], asm[p][1][1]
            rk = (reg[1], reg[2])
            if rk in named:
                add_violation(part, f"structure/{form}/scratch-register-is-named-by-source",
                              f"literal materialised into {reg[1]}{reg[2]}, a register the source program names", case,
                              {"assembled": asm, "at": p})
                return None
            if rk in scratch:
                add_violation(part, f"structure/{form}/scratch-register-reused-within-instruction",
                              "two literals of one instruction share a scratch register", case, {"assembled": asm, "at": p})
                return None
            scratch[rk] = v
            amap.append(-1)
            p += 1
        if p >= len(asm):
            add_violation(part, f"structure/{form}/instruction-dropped", "a source instruction is missing from the assembled "
                          "subroutine", case, {"assembled": asm})
            return None
        amn, aops = asm[p]
        # rebuild what the consumer must look like: literals replaced by scratch registers holding them
        pool = dict(scratch)

        def match(src, got) -> bool:
            if isinstance(src, int):
                if isinstance(got, int):
                    return src == got
                if isinstance(got, tuple) and got[0] == "r" and pool.get((got[1], got[2]), object()) == src:
                    pool.pop((got[1], got[2]))
                    return True
                return False
            if src[0] == "label":
                return isinstance(got, int) and got == "__label__"
            if src[0] in ("entry", "slice"):
                return isinstance(got, tuple) and got[0] == src[0] and got[1] == src[1] and \
                    all(match(a, b) for a, b in zip(src[2:], got[2:]))
            return src == got

        ok = amn == mn and len(aops) == len(ops)
        if ok:
            for pos, (so, go) in enumerate(zip(ops, aops)):
                if isinstance(so, tuple) and so[0] == "label":
                    continue      # targets are checked below
                if isinstance(so, int) and stays_immediate(mn, pos):
                    ok = ok and isinstance(go, int) and go == so
                else:
                    ok = ok and match(so, go)
        if not ok or pool:
            add_violation(part, f"structure/{form}/instruction-altered/{mn}", "assembled instruction is not the source instruction "
                          "with its literals replaced by freshly loaded scratch registers", case,
                          {"source": [mn, ops], "assembled": asm, "at": p})
            return None
        amap.append(si)
        p += 1
    if p != len(asm):
        add_violation(part, f"structure/{form}/extra-instructions", "assembled subroutine has trailing instructions the source "
                      "does not contain", case, {"assembled": asm})
        return None
    starts.append(len(asm))
    # branch targets
    k = 0
    for ai, si in enumerate(amap):
        if si < 0:
            continue
        mn, ops = instrs[si]
        for pos, so in enumerate(ops):
            if isinstance(so, tuple) and so[0] == "label":
                want = starts[labels[so[1]]]
                got = asm[ai][1][pos]
                if got != want:
                    add_violation(part, f"structure/{form}/branch-target", f"branch to label {so[1]} lands on assembled "
                                  f"instruction {got}, the labelled source instruction starts at {want}", case, {"assembled": asm})
                    return None
    return amap


def dynamic(instrs, labels, asm, amap, case, part, form) -> None:
    s0 = initial_state()
    src = refvm.RefVM(instrs, s0.copy(), labels=labels)
    a = src.run(max_steps=64)
    tgt = refvm.RefVM(asm, s0.copy())
    b = tgt.run(max_steps=64 * 5)
    if a[0] in ("unspecified", "unsupported"):
        count(part, "dyn/unspecified")
        return
    count(part, f"dyn/{a[0]}")
    named = named_registers(instrs)
    ttrace = [amap[i] for i in tgt.trace if amap[i] >= 0] if amap is not None else None
    if a[0] == "horizon":
        if ttrace is not None and ttrace[:len(src.trace)] != src.trace[:len(ttrace)]:
            add_violation(part, f"dynamic/{form}/trace", "assembled program executes the source instructions in a different order", case,
                          {"source_trace": src.trace[:30], "assembled_trace": ttrace[:30], "assembled": asm})
        return
    if b[0] != a[0] or (a[0] == "fault" and (a[1], a[2]) != (b[1], b[2])):
        add_violation(part, f"dynamic/{form}/outcome", f"source program ends with {a}, assembled program with {b}", case,
                      {"assembled": asm, "source_trace": src.trace, "assembled_trace": tgt.trace})
        return
    if ttrace is not None:
        want = src.trace
        if a[0] in ("fault", "blocked"):
            # the faulting/blocked instruction itself is not in either trace
            pass
        if ttrace != want:
            add_violation(part, f"dynamic/{form}/trace", "assembled program executes the source instructions in a different order "
                          "(dropped, duplicated or reordered)", case, {"source_trace": want, "assembled_trace": ttrace, "assembled": asm})
            return
    diffs = {}
    for rk in sorted(named):
        if src.s.regs.get(rk) != tgt.s.regs.get(rk):
            diffs[f"{rk[0]}{rk[1]}"] = {"source": src.s.regs.get(rk), "assembled": tgt.s.regs.get(rk)}
    for name in ("arrays", "shared_arrays", "alloc"):
        x, y = getattr(src.s, name), getattr(tgt.s, name)
        if x != y:
            diffs[name] = {"source": src.s.snapshot()[name], "assembled": tgt.s.snapshot()[name]}
    sx = {k: v for k, v in src.s.shared_regs.items()}
    sy = {k: v for k, v in tgt.s.shared_regs.items()}
    if sx != sy:
        diffs["shared_regs"] = {"source": src.s.snapshot()["shared_regs"], "assembled": tgt.s.snapshot()["shared_regs"]}
    if diffs:
        what = "register-the-source-names" if any(len(k) <= 3 for k in diffs) else "memory"
        add_violation(part, f"dynamic/{form}/final-state/{what}", "assembled program ends in a different state than the source "
                      "program (a literal disturbed a named register, or an operand changed)", case, {"diff": diffs, "assembled": asm})


def check_program(items, form: str, part, defines=(), expanded_items=None, bracket_first=False, family="grammar",
                  bracket_sep=", ") -> None:
    """items: source (with macro uses if defines); expanded_items: the source after my own macro expansion."""
    case = {"form": form, "source": render_text(items, defines, bracket_first, bracket_sep), "family": family}
    ref_items = expanded_items if expanded_items is not None else items
    instrs, labels = split_source(ref_items)
    try:
        sub = assemble(items, form, defines, bracket_first, bracket_sep)
    except RuntimeError as exc:
        if "no registers left" in str(exc):
            named = named_registers(instrs)
            need = max((len(literal_slots(mn, ops)) for mn, ops in instrs), default=0)
            rnamed = len([1 for b, _ in named if b == "R"])
            if rnamed + need > 16:
                count(part, "clear-error-no-scratch-register")
                return
        add_violation(part, f"assembler-raises/{form}/{family}", f"assembler raised {type(exc).__name__}: {str(exc)[:120]}", case)
        return
    except Exception as exc:
        _guard(exc)
        add_violation(part, f"assembler-raises/{form}/{family}", f"assembler raised {type(exc).__name__}: {str(exc)[:120]}", case)
        return
    # the assembled subroutine is judged in the form the controller receives: encoded and decoded again (an operand left
    # in a form the instruction cannot hold - a bare integer where a register is required - does not survive this)
    try:
        from netqasm.lang.parsing.binary import deserialize
        wire = deserialize(bytes(sub))
        if len(wire.instructions) != len(sub.instructions):
            raise ValueError(f"{len(sub.instructions)} instructions encode to {len(wire.instructions)}")
    except Exception as exc:
        _guard(exc)
        add_violation(part, f"assembled-not-encodable/{form}/{family}", f"the assembled subroutine cannot be encoded for the controller: "
                      f"{type(exc).__name__}: {str(exc)[:120]}", case, {"assembled": [str(i) for i in sub.instructions]})
        return
    try:
        asm = refvm.program_from_subroutine(wire)
    except Exception as exc:
        _guard(exc)
        add_violation(part, f"assembled-not-executable/{form}", f"assembled subroutine has operands that are not concrete: {exc}", case)
        return
    sp = new_part()
    amap = structural(instrs, labels, asm, case, sp, form)
    if amap is None:
        # The structural re-derivation assumes one shape (constant loads right before their consumer).  What the PROPERTY
        # forbids structurally is: a literal loaded into a register the source names, two literals of one instruction in
        # one register, a branch that does not land on the labelled instruction.  Any other shape mismatch counts only if
        # the behaviour differs too (a correct assembler with another layout must not raise an alarm).
        dp = new_part()
        dynamic(instrs, labels, asm, None, case, dp, form)
        hard = [v for v in sp["violations"] if v["fingerprint"].split("/")[2] in
                ("scratch-register-is-named-by-source", "scratch-register-reused-within-instruction", "branch-target")]
        keep = sp["violations"] if dp["violations"] else hard
        if not keep and not dp["violations"]:
            count(part, "shape-not-recognised-but-equivalent")
        for v in keep + dp["violations"]:
            part["violations"].append(v)
            count(part, "violation:" + v["fingerprint"])
        for k, n in dp["counters"].items():
            if not k.startswith("violation:"):
                count(part, k, n)
        return
    dynamic(instrs, labels, asm, amap, case, part, form)


# ----------------------------------------------------------------------------- enumeration: grammar family
def label_variants(body: List[Tuple[str, List[Any]]]):
    """All placements of the labels a program's branches reference: each branch picks label A or B; every label is placed
    at one of n+1 positions (so two labels may sit at the same position, and after the last instruction)."""
    n = len(body)
    bidx = [i for i, (mn, ops) in enumerate(body) if any(isinstance(o, tuple) and o[0] == "label" for o in ops)]
    if not bidx:
        yield list(body)
        # one variant with an unused label in front and at the end
        yield [("label:", "A")] + list(body) + [("label:", "B")]
        return
    names = ["A", "B"][: min(2, len(bidx)) if len(bidx) > 1 else 1]
    for assign in itertools.product(names, repeat=len(bidx)):
        used = sorted(set(assign))
        for poss in itertools.product(range(n + 1), repeat=len(used)):
            b2 = [list(x) for x in body]
            for bi, nm in zip(bidx, assign):
                mn, ops = body[bi]
                b2[bi] = (mn, [L(nm) if (isinstance(o, tuple) and o[0] == "label") else o for o in ops])
            items: List[Any] = []
            for i in range(n + 1):
                for nm, pos in zip(used, poss):
                    if pos == i:
                        items.append(("label:", nm))
                if i < n:
                    items.append(tuple(b2[i]) if not isinstance(b2[i], tuple) else b2[i])
            yield items


def shard_grammar(shard):
    _, n, first, reduced = shard
    part = new_part()
    menu = (REDUCED_MENU + REDUCED_BRANCH) if reduced else (FULL_MENU + BRANCH_MENU)
    for tail in itertools.product(range(len(menu)), repeat=n - 1):
        body = [menu[first]] + [menu[i] for i in tail]
        for items in label_variants(body):
            for form in ("text", "proto"):
                part["evals"] += 1
                instrs, _ = split_source(items)
                nontrivial = any(literal_slots(mn, ops) for mn, ops in instrs) or any(it[0] == "label:" for it in items)
                part["distinct"] += 1 if nontrivial else 0
                check_program([tuple(i) for i in items], form, part)
            if any(it[0] == "label:" for it in items):
                count(part, "with-labels")
    count(part, f"grammar-len-{n}")
    if first == 12 and n == 2:
        add_sample(part, {"source": render_text([menu[first], BRANCH_MENU[4], ("label:", "A")])})
    return part


# ----------------------------------------------------------------------------- enumeration: macros and brackets
MACRO_KEYS = ["i", "q", "q0"]
MACRO_VALUES = {"i": ["R0", "R1", "{R15}"], "q": ["1", "Q0", "{0}"], "q0": ["2", "R1"]}
MACRO_USES = [
    lambda: ("set", ["$i", 3]) if False else None,
]


def my_expand(tok: str, defs: Dict[str, str]):
    """Whole-token macro expansion (the documented meaning of `$key`)."""
    if isinstance(tok, str) and tok.startswith("$"):
        v = defs[tok[1:]].strip("{}")
        if v[0] in "RCQM" and v[1:].isdigit():
            return ("r", v[0], int(v[1:]))
        return int(v)
    return tok


def macro_programs():
    """(defines(ordered), items_with_uses, expanded_items)"""
    uses = [
        [("add", ["$i", "$i", "$q"])],
        [("store", ["$q0", E(0, "$q")])],
        [("add", [R(0), "$q0", "$q"])],
        [("store", ["$i", E(0, "$q0")])],
        [("qalloc", ["$q"]), ("qfree", ["$q"])],
        [("add", [R(1), "$q", "$q0"]), ("store", [R(1), E(0, "$q")])],
        [("wait_all", [SL(0, "$q", "$q0")])],
        [("beq", ["$q0", "$q", L("A")]), ("set", [R(0), 5]), ("label:", "A")],
    ]
    for keys in ([k for k in ks] for r in (1, 2, 3) for ks in itertools.permutations(MACRO_KEYS, r)):
        for vals in itertools.product(*[MACRO_VALUES[k] for k in keys]):
            defs = dict(zip(keys, vals))
            for u in uses:
                toks = set()
                for it in u:
                    if it[0] == "label:":
                        continue
                    for o in it[1]:
                        if isinstance(o, str):
                            toks.add(o[1:])
                        elif isinstance(o, tuple) and o[0] in ("entry", "slice"):
                            for x in o[2:]:
                                if isinstance(x, str):
                                    toks.add(x[1:])
                if not toks <= set(keys) or not toks:
                    continue

                def ex(o):
                    if isinstance(o, str):
                        return my_expand(o, defs)
                    if isinstance(o, tuple) and o[0] in ("entry", "slice"):
                        return tuple(list(o[:2]) + [ex(x) for x in o[2:]])
                    return o
                expanded = [it if it[0] == "label:" else (it[0], [ex(o) for o in it[1]]) for it in u]
                # ill-typed expansions (register where a literal-only position is) are skipped
                bad = False
                for it in expanded:
                    if it[0] == "label:":
                        continue
                    mn, ops = it
                    if mn in ("add", "load") and not (isinstance(ops[0], tuple) and ops[0][0] == "r"):
                        bad = True
                if bad:
                    continue
                yield list(zip(keys, vals)), u, expanded


def shard_macros(shard):
    part = new_part()
    for defines, items, expanded in macro_programs():
        part["evals"] += 1
        part["distinct"] += 1
        check_program(items, "text", part, defines=defines, expanded_items=expanded, family="macro")
        if any(a != b and (a.startswith(b) or b.startswith(a)) for a, _ in defines for b, _ in defines):
            count(part, "macro-prefix-keys")
    count(part, "macro-programs", part["evals"])
    # argument brackets
    for it in [("store", [7, E(0, 1)]), ("array", [2, AD(2)]), ("qalloc", [1]), ("add", [R(0), 1, 2])]:
        if isinstance(it[1][0], int):
            part["evals"] += 1
            part["distinct"] += 1
            check_program([it], "text", part, bracket_first=True, family="brackets")
            count(part, "bracket-programs")
    # several bracketed arguments, with and without blanks around the comma
    two = [("beq", [1, 2, L("A")]), ("set", [R(0), 5]), ("label:", "A")]
    for sep in (",", ", ", " , ", ",  "):
        part["evals"] += 1
        part["distinct"] += 1
        check_program(two, "text", part, bracket_first=2, bracket_sep=sep, family="brackets")
        count(part, "bracket-programs")
    # macro values in braces that contain blanks (the braces group several words into one value)
    for defines, items, expanded in (
            ([("acc", "{R1 R1}")], [("add", [R(0), "$acc"])], [("add", [R(0), R(1), R(1)])]),
            ([("pair", "{1 2}")], [("beq", ["$pair", L("A")]), ("set", [R(0), 5]), ("label:", "A")],
             [("beq", [1, 2, L("A")]), ("set", [R(0), 5]), ("label:", "A")]),
            ([("src", "{7 @0[1]}")], [("store", ["$src"])], [("store", [7, E(0, 1)])])):
        part["evals"] += 1
        part["distinct"] += 1
        check_program(items, "text", part, defines=defines, expanded_items=expanded, family="macro")
        count(part, "macro-brace-values")
    return part


# ----------------------------------------------------------------------------- enumeration: register pressure
def shard_pressure(shard):
    _, k = shard
    part = new_part()
    finals = [("add", [R(0), R(1), 1]), ("store", [7, E(0, 1)]), ("addm", [R(0), 1, 2, 3]), ("wait_all", [SL(0, 0, 2)]),
              ("beq", [1, 1, L("A")]), ("store", [R(0), E(0, R(1))]), ("subm", [R(0), 3, 1, 2])]
    for fin in finals:
        for form in ("text", "proto"):
            items: List[Any] = [("set", [R(i), i % 3]) for i in range(k)]
            items.append(fin)
            items.append(("label:", "A"))
            part["evals"] += 1
            part["distinct"] += 1
            check_program(items, form, part, family="pressure")
    count(part, "pressure-programs", part["evals"])
    return part


# structural-only family: positions that must stay immediate
def shard_immediates(shard):
    from netqasm.lang.instr.flavour import NVFlavour
    from netqasm.lang.parsing.text import parse_text_subroutine
    part = new_part()
    cases = [("vanilla", "jmp 2", ("jmp", [2])), ("vanilla", "bez R0 3", ("bez", [R(0), 3])),
             ("vanilla", "beq R0 R1 0", ("beq", [R(0), R(1), 0])),
             ("vanilla", "rot_x Q0 3 1", ("rot_x", [Q(0), 3, 1])), ("vanilla", "rot_z Q0 255 0", ("rot_z", [Q(0), 255, 0])),
             ("vanilla", "meas_basis Q0 M0 1 2 3 4", ("meas_basis", [Q(0), ("r", "M", 0), 1, 2, 3, 4])),
             ("vanilla", "breakpoint 1 0", ("breakpoint", [1, 0])),
             ("nv", "crot_x Q0 Q1 3 2", ("crot_x", [Q(0), Q(1), 3, 2])), ("nv", "crot_y Q1 Q0 7 4", ("crot_y", [Q(1), Q(0), 7, 4])),
             ("vanilla", "set R0 5\nset R1 6\njmp 1", None)]
    for flav, text, want in cases:
        part["evals"] += 1
        part["distinct"] += 1
        src = "# NETQASM 0.0\n# APPID 0\n" + text + "\n"
        case = {"form": "text", "source": src, "family": "immediates"}
        try:
            sub = parse_text_subroutine(src, flavour=NVFlavour() if flav == "nv" else None)
            asm = refvm.program_from_subroutine(sub)
        except Exception as exc:
            _guard(exc)
            add_violation(part, "assembler-raises/text/immediates", f"{type(exc).__name__}: {exc}", case)
            continue
        if want is not None and asm != [want]:
            add_violation(part, "structure/text/immediate-position-changed", "an operand that must stay immediate was altered or "
                          "moved to a register", case, {"assembled": asm})
        if want is None and asm[-1] != ("jmp", [1]):
            add_violation(part, "structure/text/immediate-position-changed", "numeric jump target altered", case, {"assembled": asm})
    count(part, "immediate-programs", len(cases))
    return part


# every register-or-literal operand position of every instruction shape, in every combination: the curated menus above hold a
# few instances per shape, this family closes the product {register, literal}^k per shape (k <= 3), alone and after / before
# another literal-carrying instruction, with a label in front
MIX_TEMPLATES: List[Tuple[str, Callable[..., List[Any]], List[Tuple[Any, Any]]]] = [
    ("add", lambda a, b: [R(15), a, b], [(R(0), 2), (R(1), 1)]),
    ("sub", lambda a, b: [R(0), a, b], [(R(15), 5), (R(1), 1)]),
    ("addm", lambda a, b, m: [R(0), a, b, m], [(R(0), 3), (R(1), 1), (R(15), 2)]),
    ("subm", lambda a, b, m: [R(1), a, b, m], [(R(15), 3), (R(0), 1), (C(0), 2)]),
    ("store", lambda v, i: [v, E(0, i)], [(R(15), 7), (R(1), 1)]),
    ("load", lambda i: [R(15), E(0, i)], [(R(1), 2)]),
    ("undef", lambda i: [E(0, i)], [(R(1), 2)]),
    ("array", lambda n: [n, AD(2)], [(R(15), 3)]),
    ("qalloc", lambda q: [q], [(Q(0), 1)]),
    ("wait_all", lambda a, b: [SL(0, a, b)], [(R(0), 0), (R(15), 2)]),
    ("wait_any", lambda a, b: [SL(1, a, b)], [(R(0), 0), (R(15), 2)]),
    ("wait_all", lambda a, b: [SL(1, a, b)], [(R(1), 1), (R(15), 2)]),
    ("wait_single", lambda i: [E(1, i)], [(R(1), 1)]),
    ("wait_single", lambda i: [E(1, i)], [(R(0), 0)]),
    ("bez", lambda a: [a, L("A")], [(R(0), 0)]),
    ("bnz", lambda a: [a, L("A")], [(R(1), 1)]),
    ("beq", lambda a, b: [a, b, L("A")], [(R(1), 1), (R(15), 2)]),
    ("bne", lambda a, b: [a, b, L("A")], [(R(1), 1), (R(15), 1)]),
    ("blt", lambda a, b: [a, b, L("A")], [(R(1), 1), (R(15), 2)]),
    ("bge", lambda a, b: [a, b, L("A")], [(R(0), 0), (R(15), 2)]),
]


def shard_mix(shard):
    _, ti = shard
    part = new_part()
    mn, build, slots = MIX_TEMPLATES[ti]
    neighbour = ("store", [5, E(1, 2)])
    for choice in itertools.product((0, 1), repeat=len(slots)):
        instr = (mn, build(*[slots[k][c] for k, c in enumerate(choice)]))
        for items in ([instr, ("label:", "A")], [("label:", "A"), neighbour, instr], [instr, neighbour, ("label:", "A")]):
            for form in ("text", "proto"):
                part["evals"] += 1
                part["distinct"] += 1 if any(choice) else 0
                check_program(items, form, part, family="operand-mix")
        count(part, "mix-combinations")
        if any(choice) and not all(choice):
            count(part, "mix-mixed")
    return part


# label names: the menus use A and B; a label is free text, so names that resemble other token classes (a register bank
# letter followed by letters, digits inside, lower case, underscores, the SDK's own LOOP_EXIT3 style) must work alike
LABEL_NAMES = [("RETRY", "CLEANUP"), ("MAIN", "QUIT"), ("Rx", "Qy"), ("M1N", "C0X"), ("loop", "exit"), ("L0", "L1"),
               ("LOOP_EXIT3", "IF_EXIT12"), ("a", "b"), ("RR", "CQ"), ("END", "START"),
               # names that differ only in case; names that are exactly a register bank letter
               ("DONE", "done"), ("Loop", "LOOP"), ("R", "Q"), ("C", "M")]


def _rename(items, mapping):
    def op(o):
        if isinstance(o, tuple) and o and o[0] == "label":
            return L(mapping.get(o[1], o[1]))
        return o
    out = []
    for it in items:
        if it[0] == "label:":
            out.append(("label:", mapping.get(it[1], it[1])))
        else:
            out.append((it[0], [op(o) for o in it[1]]))
    return out


def shard_label_names(shard):
    _, ni = shard
    part = new_part()
    n1, n2 = LABEL_NAMES[ni]
    bodies = [[BRANCH_MENU[0], FULL_MENU[5]], [BRANCH_MENU[1], BRANCH_MENU[4]], [FULL_MENU[12], BRANCH_MENU[6]],
              [BRANCH_MENU[3], FULL_MENU[8], BRANCH_MENU[0]]]
    for body in bodies:
        for items in label_variants(body):
            items = _rename([tuple(i) for i in items], {"A": n1, "B": n2})
            for form in ("text", "proto"):
                part["evals"] += 1
                part["distinct"] += 1
                check_program(items, form, part, family="label-names")
    count(part, "label-name-pairs")
    return part


def _dispatch(shard):
    return {"grammar": shard_grammar, "labelnames": shard_label_names, "macros": shard_macros, "pressure": shard_pressure, "imm": shard_immediates,
            "mix": shard_mix}[shard[0]](shard)


def run(ctx):
    shards: List[Any] = [("macros",), ("imm",)] + [("pressure", k) for k in range(11, 17)]
    shards += [("mix", i) for i in range(len(MIX_TEMPLATES))]
    shards += [("labelnames", i) for i in range(len(LABEL_NAMES))]
    plan = [(1, False), (2, False), (3, True)] if ctx.tier == "quick" else [(1, False), (2, False), (3, False), (4, True)]
    for n, reduced in plan:
        menu = (REDUCED_MENU + REDUCED_BRANCH) if reduced else (FULL_MENU + BRANCH_MENU)
        for first in range(len(menu)):
            shards.append(("grammar", n, first, reduced))
    ctx.pmap(_dispatch, shards)
    ctx.require("with-labels", 100)
    ctx.require("macro-programs", 50)
    ctx.require("macro-prefix-keys", 10)
    ctx.require("pressure-programs", 40)
    ctx.require("mix-combinations", sum(2 ** len(t[2]) for t in MIX_TEMPLATES))
    ctx.require("mix-mixed", 20)
    ctx.require("label-name-pairs", len(LABEL_NAMES))
    ctx.require("bracket-programs", 7)
    ctx.require("macro-brace-values", 3)
    ctx.require("dyn/done", 1000)
    ctx.require("dyn/fault", 10)
    ctx.require("dyn/blocked", 1)
    ctx.require("clear-error-no-scratch-register", 1)
    ctx.extra["program_lengths"] = [n for n, _ in plan]


def replay(case, part):
    """Replays from the recorded source text (text form) — for the IR form the same program is rebuilt from the text."""
    from netqasm.lang.parsing.text import parse_text_protosubroutine
    src = case["source"]
    items: List[Any] = []
    defines = []
    for line in src.strip().split("\n"):
        if line.startswith("# DEFINE"):
            _, _, k, v = line.split(" ", 3)
            defines.append((k, v))
            continue
        if line.startswith("#"):
            continue
        if line.endswith(":"):
            items.append(("label:", line[:-1]))
            continue
        items.append(_parse_line(line))
    if defines:
        defs = dict(defines)

        def ex(o):
            if isinstance(o, str):
                return my_expand(o, defs)
            if isinstance(o, tuple) and o[0] in ("entry", "slice"):
                return tuple(list(o[:2]) + [ex(x) for x in o[2:]])
            return o
        expanded = [it if it[0] == "label:" else (it[0], [ex(o) for o in it[1]]) for it in items]
        check_program(items, "text", part, defines=defines, expanded_items=expanded, family=case.get("family", "macro"))
    else:
        check_program(items, case["form"], part, family=case.get("family", "grammar"))


def _parse_line(line: str):
    mn, *words = line.split()
    first = []
    if "(" in mn:
        mn, arg = mn.split("(")
        first = [int(arg.rstrip(")"))]

    def tok(w):
        if w.startswith("$"):
            return w
        if w.startswith("@"):
            if "[" in w:
                a, idx = w[1:].split("[")
                idx = idx.rstrip("]")
                if ":" in idx:
                    s, e = idx.split(":")
                    return ("slice", int(a), tok(s), tok(e))
                return ("entry", int(a), tok(idx))
            return ("addr", int(w[1:]))
        if w[0] in "RCQM" and w[1:].isdigit():
            return ("r", w[0], int(w[1:]))
        if w.lstrip("-").isdigit():
            return int(w)
        return ("label", w)
    return (mn, first + [tok(w) for w in words])
